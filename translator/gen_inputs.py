"""T-gen: coq/Gen/InputFlow.v -- the few literal facts of the input checking that the C17 model
takes as parameters (Python `ast` of pandora/check_configuration.py and pandora/__init__.py):

  mandatory_attributes : the set literal of check_dataset
  images_checked       : the list literal `images` of check_images
  calls_<function>     : for main, check_conf, check_input_section, check_datasets, check_dataset
                         the names of the functions called, statement by statement in source
                         order (inside one statement: by position in the text)

Fail closed: a missing function, a literal that is not a set/list of string constants, or a
call through something else than a plain name / attribute raises TranslationError."""
import ast
import inspect
import os
import sys

from common import emit, fail, sha1_of, REPO


def coq_str(s, where):
    if not isinstance(s, str) or any(ord(c) < 32 or ord(c) > 126 for c in s) or '"' in s:
        fail(where, f"string constant not plain printable ASCII: {s!r}")
    return '"' + s + '"'


def coq_list(items, where):
    return "[" + "; ".join(coq_str(x, where) for x in items) + "]"


def find_func(tree, name, path):
    for node in tree.body:
        if isinstance(node, ast.FunctionDef) and node.name == name:
            return node
    fail(path, f"function {name} not found")
    return None


def literal_strings(func, var, kinds, path):
    """the single assignment `var = {..}` / `[..]` of string constants inside func"""
    found = []
    for node in ast.walk(func):
        if isinstance(node, ast.Assign) and len(node.targets) == 1 and isinstance(node.targets[0], ast.Name) \
                and node.targets[0].id == var:
            found.append(node)
    if len(found) != 1:
        fail(f"{path}:{func.lineno}", f"{func.name}: expected exactly one assignment to {var}, found {len(found)}")
    val = found[0].value
    if not isinstance(val, kinds):
        fail(f"{path}:{found[0].lineno}", f"{var} is not a {'/'.join(k.__name__ for k in kinds)} literal")
    out = []
    for e in val.elts:
        if not (isinstance(e, ast.Constant) and isinstance(e.value, str)):
            fail(f"{path}:{found[0].lineno}", f"{var} holds something else than string constants")
        out.append(e.value)
    if len(set(out)) != len(out):
        fail(f"{path}:{found[0].lineno}", f"{var} holds a duplicate")
    return out


def call_name(call, path):
    f = call.func
    if isinstance(f, ast.Name):
        return f.id
    if isinstance(f, ast.Attribute):
        return f.attr
    fail(f"{path}:{call.lineno}", "call through an expression that is neither a name nor an attribute")
    return None


def calls_of(func, path):
    out = []
    for stmt in func.body:
        calls = [n for n in ast.walk(stmt) if isinstance(n, ast.Call)]
        calls.sort(key=lambda n: (n.lineno, n.col_offset))
        out += [call_name(c, path) for c in calls]
    return out


def main():
    sys.path.insert(0, REPO)
    cc_path = os.path.join(REPO, "pandora", "check_configuration.py")
    init_path = os.path.join(REPO, "pandora", "__init__.py")
    sources = []
    trees = {}
    for p in (cc_path, init_path):
        if not os.path.exists(p):
            fail(p, "file not found")
        with open(p) as f:
            text = f.read()
        trees[p] = (ast.parse(text), text)

    cc_tree, cc_text = trees[cc_path]
    init_tree, init_text = trees[init_path]

    def src(func, text):
        return "\n".join(text.splitlines()[func.lineno - 1:func.end_lineno])

    body = ("From Coq Require Import List String.\nImport ListNotations.\nOpen Scope string_scope.\n\n")
    f_ds = find_func(cc_tree, "check_dataset", cc_path)
    mandatory = literal_strings(f_ds, "mandatory_attributes", (ast.Set,), cc_path)
    body += f"Definition mandatory_attributes : list string := {coq_list(mandatory, cc_path)}.\n\n"
    f_im = find_func(cc_tree, "check_images", cc_path)
    images = literal_strings(f_im, "images", (ast.List,), cc_path)
    body += f"Definition images_checked : list string := {coq_list(images, cc_path)}.\n\n"
    sources.append((cc_path, f"check_dataset line {f_ds.lineno}", sha1_of(src(f_ds, cc_text))))
    sources.append((cc_path, f"check_images line {f_im.lineno}", sha1_of(src(f_im, cc_text))))
    n = 0
    for name, tree, text, path in (("main", init_tree, init_text, init_path),
                                   ("check_conf", cc_tree, cc_text, cc_path),
                                   ("check_input_section", cc_tree, cc_text, cc_path),
                                   ("check_datasets", cc_tree, cc_text, cc_path),
                                   ("check_dataset", cc_tree, cc_text, cc_path)):
        fn = find_func(tree, name, path)
        calls = calls_of(fn, path)
        if not calls:
            fail(f"{path}:{fn.lineno}", f"{name} calls nothing")
        body += f"Definition calls_{name} : list string := {coq_list(calls, path)}.\n\n"
        sources.append((path, f"{name} line {fn.lineno}", sha1_of(src(fn, text))))
        n += len(calls)
    # the other functions the hand-written model mirrors: recorded so that the evidence shows
    # which text the correspondence was run against
    for name in ("check_shape", "check_attributes", "check_band_names", "check_disparities_from_input",
                 "check_disparities_from_dataset", "check_image_dimension", "rasterio_can_open",
                 "rasterio_can_open_mandatory", "update_conf", "get_config_input"):
        fn = find_func(cc_tree, name, cc_path)
        sources.append((cc_path, f"{name} line {fn.lineno}", sha1_of(src(fn, cc_text))))
    _, changed = emit("InputFlow", body, sources)
    print(f"gen_inputs: Gen/InputFlow.v {'rewritten' if changed else 'unchanged'} "
          f"mandatory={len(mandatory)} images={len(images)} calls={n}")


if __name__ == "__main__":
    try:
        main()
    except Exception as exc:  # fail closed
        print(f"TranslationError: {exc}")
        sys.exit(3)
