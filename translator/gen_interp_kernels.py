"""T-gen: coq/Gen/InterpKernels.v from the four interpolation kernels and find_valid_neighbors (Python `ast`,
fail closed).

    pandora/validation/interpolated_disparity.py
        class registered as "mc-cnn": interpolate_occlusion_mc_cnn -> occ_mc_pixel, interpolate_mismatch_mc_cnn -> mis_mc_pixel,
                                      interpolated_disparity -> mc_cnn_plan
        class registered as "sgm":    interpolate_occlusion_sgm -> occ_sgm_pixel, interpolate_mismatch_sgm -> mis_sgm_pixel,
                                      interpolated_disparity -> sgm_plan
    pandora/img_tools.py              find_valid_neighbors -> find_valid_neighbors

A kernel must have the shape

    out_disp = np.copy(disp); out_val = np.copy(valid); ncol, nrow = disp.shape      (any order)
    [dirs = np.array([[a, b], ...])]  [name = <int expression of ncol, nrow>]
    for col in range(ncol):
        for row in range(nrow):
            <pixel body>
    return out_disp, out_val

and its pixel body may touch the outputs only as out_disp[col, row] / out_val[col, row] and may not store into disp /
valid / col / row / ncol / nrow / the prelude names: so an iteration writes its own output pixel only and reads the
inputs only (what Model/Interp.v assumes when it models a kernel by its per-pixel function).  The pixel body is
translated statement by statement into Gallina over the types of the model (Model/InterpPrims.v gives the semantics of
the constructs; the numpy calls on the tiny arrays are the model's own list functions):

    x = e                              ->  let x := e in ...
    out_val[col, row] -= e | |= e | += e   ->  let out_val := out_val - e | Z.lor out_val e | out_val + e in ...
    out_disp[col, row] = e             ->  let out_disp := e in ...
    buf[k] = e                         ->  let buf := py_upd buf k e in ...
    x += e                             ->  let x := x + e in ...
    if t: A else: B ; rest             ->  if t then <A; rest> else <B; rest>
    for x in range(a, b): body ; rest  ->  let '(v1, .., vn) := for_break (py_range a b) (fun x '(v1, .., vn) => body) (v1, .., vn) in rest
                                           v1..vn = the variables the body assigns that exist before the loop; the body
                                           ends with ((v1, .., vn), false), a `break` is ((v1, .., vn), true);
                                           without `break`: fold_left (fun '(v1, .., vn) x => body) (py_range a b) (v1, .., vn)
    a[i, j]  a[i, lo:hi]  a[lo:hi, lo:hi]  l[::-1]  l[k]  dirs[k][0|1]
                                       ->  rd2 / slice_row / slice_box / rev / py_nth / dir0|dir1  (Python index rules)
    np.argmax np.argsort np.abs np.isnan np.all np.nanmedian np.sum np.full(n, np.nan) np.zeros(n) int math.floor max min
                                       ->  argmax_b argsort (map fabs) (map fisnan | fisnan) np_all nanmedian np_sum repeat qtrunc id Z.max Z.min
    cst.NAME                           ->  the constant of Gen/ValConst.v
    find_valid_neighbors(dirs, disp, valid, row, col)  ->  the generated find_valid_neighbors

Anything else (another statement, operator, call, subscript, name, decorator, signature, loop header, prelude or
return) is a TranslationError naming file:line.  The per-run obligations are in Proofs/InterpGenP.v: each generated
pixel body equals the model's pixel function of Model/Interp.v on every pixel of the map, for ALL maps and masks."""
import ast
import os
import re
import sys
from fractions import Fraction

from common import emit, fail, sha1_of, REPO

CST = ["PANDORA_MSK_PIXEL_INVALID", "PANDORA_MSK_PIXEL_LEFT_NODATA_OR_BORDER", "PANDORA_MSK_PIXEL_FILLED_OCCLUSION",
       "PANDORA_MSK_PIXEL_FILLED_MISMATCH", "PANDORA_MSK_PIXEL_OCCLUSION", "PANDORA_MSK_PIXEL_MISMATCH"]
# identifiers a Python local may not take: Gallina keywords and every name the generated text uses
RESERVED = set("""at as cofix else end exists exists2 fix for forall fun if IF in let match mod return Set Prop SProp Type
then using where with Z Q fl nat bool list option Some None true false negb andb orb fst snd map rev repeat fold_left
for_break py_range py_idx py_norm py_slice rd2 slice_row slice_box py_nth py_upd upd_nat dir0 dir1 np_all np_sum argsort
lt_nanlast qmulz qtrunc nanmedian argmax_b nthb b2z isort fnan fz fq fabs fisnan inject_Z np cst math abs min max int
range njit find_valid_neighbors occ_mc_pixel mis_mc_pixel occ_sgm_pixel mis_sgm_pixel mc_cnn_plan sgm_plan kname
KOccMc KMisMc KOccSgm KMisSgm""".split()) | set(CST)
Z_CMP = {ast.Lt: "<?", ast.Gt: ">?", ast.LtE: "<=?", ast.GtE: ">=?", ast.Eq: "=?"}
LISTS = {"LZ": "Z", "LF": "F", "LB": "B"}
DEFAULT = {"Z": "0", "F": "fnan", "B": "false"}


def same(node, text):
    return ast.dump(node) == ast.dump(ast.parse(text).body[0])


def same_expr(node, text):
    return ast.dump(node) == ast.dump(ast.parse(text, mode="eval").body)


def is_doc(s):
    return isinstance(s, ast.Expr) and isinstance(s.value, ast.Constant) and isinstance(s.value.value, str)


def assigned_names(stmts):
    """names a block (re)binds or stores into: x = .., x op= .., x[..] = .., x[..] op= .. (loop targets excluded)"""
    out = []
    for s in stmts:
        for n in ast.walk(s):
            tgts = []
            if isinstance(n, ast.Assign):
                tgts = n.targets
            elif isinstance(n, (ast.AugAssign, ast.AnnAssign)):
                tgts = [n.target]
            for t in tgts:
                while isinstance(t, ast.Subscript):
                    t = t.value
                if isinstance(t, ast.Name) and t.id not in out:
                    out.append(t.id)
    return out


def own_break(stmts):
    """does a `break` of THIS loop occur in the block (not one of a nested loop)"""
    for s in stmts:
        if isinstance(s, ast.Break):
            return True
        if isinstance(s, ast.If) and (own_break(s.body) or own_break(s.orelse)):
            return True
    return False


def terminates(stmts):
    """the block always ends with `break` / `return` (what follows it in the enclosing block is not reached)"""
    if not stmts:
        return False
    s = stmts[-1]
    if isinstance(s, (ast.Break, ast.Return)):
        return True
    return isinstance(s, ast.If) and terminates(s.body) and terminates(s.orelse)


class Tr:
    """one body.  env: name -> type
         Z int, Q finite float, F float (fl), B bool, LZ/LF/LB 1-D arrays, MZ a 2-D slice (row-major, element-wise use
         only), AF/AZ the 2-D inputs (shape ncol x nrow), DZ/DQ an (n, 2) table of int / finite float
       cells: out_disp / out_val -> type of the per-pixel cell (pixel bodies only)"""

    def __init__(self, fname, env, cells, protected):
        self.fname = fname
        self.env = dict(env)
        self.cells = dict(cells)
        self.protected = set(protected)

    def where(self, node):
        return f"{self.fname}:{getattr(node, 'lineno', '?')}"

    # ------------------------------------------------------------ expressions
    def lit(self, node, v):
        if isinstance(v, bool):
            fail(self.where(node), f"boolean literal {v!r}")
        if isinstance(v, int):
            return (f"({v})", "Z")
        if isinstance(v, float):
            if v != v or v in (float("inf"), float("-inf")):
                fail(self.where(node), f"float literal {v!r}")
            q = Fraction(repr(v))  # the decimal the literal denotes (repr round-trips)
            if float(q) != v:
                fail(self.where(node), f"float literal {v!r} does not round-trip")
            return (f"({q.numerator} # {q.denominator})%Q", "Q")
        fail(self.where(node), f"literal {v!r} is not a number")

    def as_f(self, node, tv):
        t, ty = tv
        if ty == "F":
            return t
        if ty == "Q":
            return f"(fq {t})"
        if ty == "Z":
            return f"(fz {t})"
        fail(self.where(node), f"a value of type {ty} is stored as a float: {t}")

    def z(self, node):
        t, ty = self.expr(node)
        if ty != "Z":
            fail(self.where(node), f"an int is expected, {ast.unparse(node)} has type {ty}")
        return t

    def is_cell(self, e):
        """out_disp[col, row] / out_val[col, row] -> name, else None (any other use of the outputs is refused)"""
        if isinstance(e, ast.Subscript) and isinstance(e.value, ast.Name) and e.value.id in self.cells:
            if same_expr(e.slice, "(col, row)"):
                return e.value.id
            fail(self.where(e), f"{e.value.id} is indexed with something else than [col, row]: {ast.unparse(e)}")
        return None

    def bound(self, node, absent):
        return absent if node is None else self.z(node)

    def subscript(self, e):
        cell = self.is_cell(e)
        if cell is not None:
            return (cell, self.cells[cell])
        base, s = e.value, e.slice
        # dirs[k][0] / dirs[k][1]
        if isinstance(base, ast.Subscript) and isinstance(base.value, ast.Name) \
                and self.env.get(base.value.id) in ("DZ", "DQ"):
            if not (isinstance(s, ast.Constant) and s.value in (0, 1) and not isinstance(s.value, bool)):
                fail(self.where(e), f"second index of the direction table is not the literal 0 or 1: {ast.unparse(e)}")
            ty = self.env[base.value.id][1]
            d = "0" if ty == "Z" else "0%Q"
            return (f"(dir{s.value} {d} {base.value.id} {self.z(base.slice)})", ty)
        if not isinstance(base, ast.Name):
            fail(self.where(e), f"subscript of something else than a name: {ast.unparse(e)}")
        ty = self.env.get(base.id)
        if ty in ("AF", "AZ"):
            elt = ty[1]
            if not (isinstance(s, ast.Tuple) and len(s.elts) == 2):
                fail(self.where(e), f"a 2-D array is not indexed with two subscripts: {ast.unparse(e)}")
            i, j = s.elts
            for x in (i, j):
                if isinstance(x, ast.Slice) and x.step is not None:
                    fail(self.where(e), f"slice with a step on a 2-D array: {ast.unparse(e)}")
            if not isinstance(i, ast.Slice) and not isinstance(j, ast.Slice):
                return (f"(rd2 ncol nrow {base.id} {self.z(i)} {self.z(j)})", elt)
            if not isinstance(i, ast.Slice):
                return (f"(slice_row ncol nrow {base.id} {self.z(i)} {self.bound(j.lower, '0')} "
                        f"{self.bound(j.upper, 'nrow')})", "L" + elt)
            if isinstance(j, ast.Slice):
                if elt != "Z":
                    fail(self.where(e), f"2-D slice of a float array: {ast.unparse(e)}")
                return (f"(slice_box ncol nrow {base.id} {self.bound(i.lower, '0')} {self.bound(i.upper, 'ncol')} "
                        f"{self.bound(j.lower, '0')} {self.bound(j.upper, 'nrow')})", "MZ")
            fail(self.where(e), f"column slice of a 2-D array: {ast.unparse(e)}")
        if ty in LISTS:
            if isinstance(s, ast.Slice):
                if s.lower is None and s.upper is None and s.step is not None and same_expr(s.step, "-1"):
                    if ty == "LF":  # a view of an array the body may store into
                        fail(self.where(e), f"reversed view of a float buffer: {ast.unparse(e)}")
                    return (f"(rev {base.id})", ty)
                fail(self.where(e), f"slice of a 1-D array other than [::-1]: {ast.unparse(e)}")
            elt = LISTS[ty]
            return (f"(py_nth {DEFAULT[elt]} {base.id} {self.z(s)})", elt)
        fail(self.where(e), f"subscript of {base.id} (type {ty}) not supported: {ast.unparse(e)}")

    def np_call(self, e, f):
        a = e.args
        kw = {k.arg: k.value for k in e.keywords}
        if f in ("full", "zeros"):
            want = 2 if f == "full" else 1
            if len(a) != want or set(kw) != {"dtype"} or not same_expr(kw["dtype"], "np.float32") \
                    or not (isinstance(a[0], ast.Constant) and isinstance(a[0].value, int)
                            and not isinstance(a[0].value, bool) and 0 < a[0].value <= 64):
                fail(self.where(e), f"not np.{f}(<literal n>{', np.nan' if f == 'full' else ''}, dtype=np.float32): "
                                    f"{ast.unparse(e)}")
            if f == "full":
                if not same_expr(a[1], "np.nan"):
                    fail(self.where(e), f"np.full with a fill value other than np.nan: {ast.unparse(e)}")
                return (f"(repeat fnan {a[0].value}%nat)", "LF")
            return (f"(repeat (fz 0) {a[0].value}%nat)", "LF")
        if e.keywords or len(a) != 1:
            fail(self.where(e), f"np.{f} with keywords or not exactly one argument: {ast.unparse(e)}")
        t, ty = self.expr(a[0])
        table = {("argmax", "LB"): ("argmax_b", "Z"), ("argsort", "LF"): ("argsort", "LZ"),
                 ("abs", "LF"): ("map fabs", "LF"), ("isnan", "LF"): ("map fisnan", "LB"), ("isnan", "F"): ("fisnan", "B"),
                 ("all", "LB"): ("np_all", "B"), ("nanmedian", "LF"): ("nanmedian", "F"),
                 ("sum", "MZ"): ("np_sum", "Z"), ("sum", "LZ"): ("np_sum", "Z")}
        if (f, ty) not in table:
            fail(self.where(e), f"np.{f} on a value of type {ty} not supported: {ast.unparse(e)}")
        fn, rty = table[(f, ty)]
        return (f"({fn} {t})", rty)

    def call(self, e):
        fn = e.func
        if isinstance(fn, ast.Attribute) and isinstance(fn.value, ast.Name) and fn.value.id == "np":
            return self.np_call(e, fn.attr)
        if e.keywords:
            fail(self.where(e), f"call with keywords: {ast.unparse(e)}")
        if isinstance(fn, ast.Attribute) and isinstance(fn.value, ast.Name) and fn.value.id == "math" \
                and fn.attr == "floor" and len(e.args) == 1:
            return (self.z(e.args[0]), "Z")  # math.floor of an int
        if isinstance(fn, ast.Name):
            f = fn.id
            if f in self.env or f in self.cells:
                fail(self.where(e), f"{f} is a local name, not the builtin")
            if f in ("max", "min") and len(e.args) == 2:
                return (f"(Z.{f} {self.z(e.args[0])} {self.z(e.args[1])})", "Z")
            if f == "int" and len(e.args) == 1:
                t, ty = self.expr(e.args[0])
                if ty == "Z":
                    return (t, "Z")
                if ty == "Q":
                    return (f"(qtrunc {t})", "Z")
                fail(self.where(e), f"int() of a value of type {ty}: {ast.unparse(e)}")
            if f == "find_valid_neighbors":
                if [ast.dump(x) for x in e.args] != [ast.dump(ast.Name(n, ast.Load())) for n in
                                                     ("dirs", "disp", "valid", "row", "col")]:
                    fail(self.where(e), f"not find_valid_neighbors(dirs, disp, valid, row, col): {ast.unparse(e)}")
                got = [self.env.get(n) for n in ("dirs", "disp", "valid", "row", "col")]
                if got != ["DZ", "AF", "AZ", "Z", "Z"] or "out_disp" not in self.cells:
                    fail(self.where(e), f"find_valid_neighbors called with arguments of types {got}")
                return ("(find_valid_neighbors dirs ncol nrow disp valid row col)", "LF")
        fail(self.where(e), f"call not supported: {ast.unparse(e)}")

    def expr(self, e):
        """-> (coq text, type)"""
        if isinstance(e, ast.Constant):
            return self.lit(e, e.value)
        if isinstance(e, ast.UnaryOp) and isinstance(e.op, ast.USub):
            if isinstance(e.operand, ast.Constant) and isinstance(e.operand.value, (int, float)) \
                    and not isinstance(e.operand.value, bool):
                return self.lit(e, -e.operand.value)
            return (f"(- {self.z(e.operand)})", "Z")
        if isinstance(e, ast.UnaryOp) and isinstance(e.op, ast.Not):
            t, ty = self.expr(e.operand)
            if ty != "B":
                fail(self.where(e), f"`not` of a value of type {ty}: {ast.unparse(e)}")
            return (f"(negb {t})", "B")
        if isinstance(e, ast.Name):
            if e.id in self.cells:
                fail(self.where(e), f"the whole output array {e.id} is used")
            if e.id in self.env:
                return (e.id, self.env[e.id])
            fail(self.where(e), f"unknown name {e.id}")
        if isinstance(e, ast.Attribute):
            if isinstance(e.value, ast.Name) and e.value.id == "cst" and e.attr in CST:
                return (e.attr, "Z")
            if same_expr(e, "np.nan"):
                return ("fnan", "F")
            fail(self.where(e), f"unknown attribute {ast.unparse(e)}")
        if isinstance(e, ast.Subscript):
            return self.subscript(e)
        if isinstance(e, ast.Call):
            return self.call(e)
        if isinstance(e, ast.BinOp):
            a = self.expr(e.left)
            b = self.expr(e.right)
            tys = (a[1], b[1])
            if isinstance(e.op, (ast.Add, ast.Sub, ast.Mult)) and tys == ("Z", "Z"):
                return (f"({a[0]} {'+' if isinstance(e.op, ast.Add) else '-' if isinstance(e.op, ast.Sub) else '*'} {b[0]})", "Z")
            if isinstance(e.op, ast.Mult) and tys == ("Z", "B"):
                return (f"({a[0]} * b2z {b[0]})", "Z")
            if isinstance(e.op, ast.Mult) and tys == ("Q", "Z"):
                return (f"(qmulz {a[0]} {b[0]})", "Q")
            if isinstance(e.op, ast.BitAnd) and tys == ("Z", "Z"):
                return (f"(Z.land {a[0]} {b[0]})", "Z")
            if isinstance(e.op, ast.BitAnd) and tys in (("LZ", "Z"), ("MZ", "Z")):
                return (f"(map (fun v_ => Z.land v_ {b[0]}) {a[0]})", a[1])
            if isinstance(e.op, ast.BitOr) and tys == ("B", "B"):
                return (f"({a[0]} || {b[0]})", "B")
            fail(self.where(e), f"operator {type(e.op).__name__} on types {tys} not supported: {ast.unparse(e)}")
        if isinstance(e, ast.BoolOp):
            parts = []
            for v in e.values:
                t, ty = self.expr(v)
                if ty != "B":
                    fail(self.where(e), f"`and`/`or` of a value of type {ty}: {ast.unparse(e)}")
                parts.append(t)
            return ("(" + (" || " if isinstance(e.op, ast.Or) else " && ").join(parts) + ")", "B")
        if isinstance(e, ast.Compare) and len(e.ops) == 1:
            op = e.ops[0]
            a = self.expr(e.left)
            b = self.expr(e.comparators[0])
            tys = (a[1], b[1])
            if tys == ("Z", "Z"):
                if isinstance(op, ast.NotEq):
                    return (f"(negb ({a[0]} =? {b[0]}))", "B")
                if type(op) in Z_CMP:
                    return (f"({a[0]} {Z_CMP[type(op)]} {b[0]})", "B")
            if tys == ("LZ", "Z") and isinstance(op, ast.Eq):
                return (f"(map (fun v_ => v_ =? {b[0]}) {a[0]})", "LB")
            fail(self.where(e), f"comparison {type(op).__name__} on types {tys} not supported: {ast.unparse(e)}")
        fail(self.where(e), f"expression shape not supported: {ast.unparse(e)}")

    def test(self, t):
        text, ty = self.expr(t)
        if ty != "B":
            fail(self.where(t), f"the test {ast.unparse(t)} has type {ty}, not bool")
        return text

    # ------------------------------------------------------------ statements
    def bind(self, node, name, ty):
        if name in RESERVED or name.endswith("_") or not re.fullmatch(r"[A-Za-z_][A-Za-z0-9_]*", name):
            fail(self.where(node), f"the local name {name} clashes with a name of the generated text")
        if name in self.protected or name in self.cells:
            fail(self.where(node), f"assignment to {name} (a parameter, an input or output array, a loop variable or a "
                                   "prelude name)")
        if name in self.env and self.env[name] != ty:
            fail(self.where(node), f"{name} changes type from {self.env[name]} to {ty}")
        self.env[name] = ty

    @staticmethod
    def tup(names):
        return names[0] if len(names) == 1 else "(" + ", ".join(names) + ")"

    @staticmethod
    def pat(names):
        return names[0] if len(names) == 1 else "'(" + ", ".join(names) + ")"

    def block(self, stmts, tail, last):
        """tail = {"end": text when the block falls off its end, "brk": text of a `break` or None,
                   "ret": type a `return <name>` must have or None}"""
        if not stmts:
            if tail["end"] is None:
                fail(self.where(last), "the function can fall off its end without a return")
            return tail["end"]
        s, rest = stmts[0], stmts[1:]
        if is_doc(s):
            return self.block(rest, tail, s)
        if isinstance(s, ast.Break):
            if tail["brk"] is None:
                fail(self.where(s), "`break` outside a translated loop")
            if rest:
                fail(self.where(rest[0]), "statements after `break`")
            return tail["brk"]
        if isinstance(s, ast.Return):
            if tail["ret"] is None:
                fail(self.where(s), "`return` inside a pixel body or a loop")
            if rest:
                fail(self.where(rest[0]), "statements after `return`")
            t, ty = self.expr(s.value) if s.value is not None else ("", None)
            if not isinstance(s.value, ast.Name) or ty != tail["ret"]:
                fail(self.where(s), f"not `return <name of type {tail['ret']}>`: {ast.unparse(s)}")
            return t
        if isinstance(s, ast.Assign) and len(s.targets) == 1:
            tgt = s.targets[0]
            if isinstance(tgt, ast.Name):
                t, ty = self.expr(s.value)
                if ty in ("AF", "AZ", "DZ", "DQ", "MZ"):
                    fail(self.where(s), f"an array / table of type {ty} is bound to a local name: {ast.unparse(s)}")
                if ty in LISTS and isinstance(s.value, ast.Name):
                    # (a later store through one name would be seen through the other; the translation copies)
                    fail(self.where(s), f"a second name for the array {s.value.id}: {ast.unparse(s)}")
                self.bind(s, tgt.id, ty)
                return f"let {tgt.id} := {t} in\n" + self.block(rest, tail, s)
            cell = self.is_cell(tgt)
            if cell is not None:
                tv = self.expr(s.value)
                if self.cells[cell] == "F":
                    t = self.as_f(s, tv)
                elif tv[1] == "Z":
                    t = tv[0]
                else:
                    fail(self.where(s), f"a value of type {tv[1]} is stored into the integer array {cell}")
                return f"let {cell} := {t} in\n" + self.block(rest, tail, s)
            if isinstance(tgt, ast.Subscript) and isinstance(tgt.value, ast.Name) and self.env.get(tgt.value.id) == "LF" \
                    and not isinstance(tgt.slice, (ast.Slice, ast.Tuple)):
                buf = tgt.value.id
                if buf in self.protected:
                    fail(self.where(s), f"store into {buf}")
                k = self.z(tgt.slice)
                v = self.as_f(s, self.expr(s.value))
                return f"let {buf} := py_upd {buf} {k} {v} in\n" + self.block(rest, tail, s)
        if isinstance(s, ast.AugAssign) and isinstance(s.op, (ast.Sub, ast.BitOr, ast.Add)):
            cell = self.is_cell(s.target)
            name = cell if cell is not None else s.target.id if isinstance(s.target, ast.Name) else None
            ty = self.cells.get(cell) if cell is not None else self.env.get(name)
            if name is not None and ty == "Z":
                if cell is None:
                    self.bind(s, name, "Z")
                e = self.z(s.value)
                new = {ast.Sub: f"({name} - {e})", ast.BitOr: f"(Z.lor {name} {e})", ast.Add: f"({name} + {e})"}[type(s.op)]
                return f"let {name} := {new} in\n" + self.block(rest, tail, s)
        if isinstance(s, ast.If):
            tst = self.test(s.test)
            env0 = dict(self.env)
            b1 = self.block(s.body if terminates(s.body) else s.body + rest, tail, s)
            self.env = dict(env0)
            b2 = self.block(s.orelse if terminates(s.orelse) else s.orelse + rest, tail, s)
            self.env = dict(env0)  # (names bound in one branch only do not survive; `rest` was translated inside)
            return f"if {tst} then\n{b1}\nelse\n{b2}"
        if isinstance(s, ast.For):
            return self.loop(s, rest, tail)
        fail(self.where(s), f"statement shape not supported: {ast.unparse(s).splitlines()[0]}")

    def loop(self, s, rest, tail):
        if s.orelse or not isinstance(s.target, ast.Name):
            fail(self.where(s), "for ... else, or a loop target that is not a name")
        x = s.target.id
        it = s.iter
        if not (isinstance(it, ast.Call) and isinstance(it.func, ast.Name) and it.func.id == "range"
                and not it.keywords and len(it.args) in (1, 2)) or "range" in self.env:
            fail(self.where(s), f"the loop does not run over range(b) / range(a, b): {ast.unparse(it)}")
        lo = "0" if len(it.args) == 1 else self.z(it.args[0])
        hi = self.z(it.args[-1])
        if x in self.env or x in self.cells or x in self.protected or x in RESERVED or x.endswith("_"):
            fail(self.where(s), f"the loop variable {x} is already in use")
        assigned = assigned_names(s.body)
        if x in assigned:
            fail(self.where(s), f"the loop body assigns its loop variable {x}")
        state = [n for n in assigned if n in self.env or n in self.cells]
        if not state:
            fail(self.where(s), "the loop changes no variable that exists before it")
        for n in state:
            if n in self.protected:
                fail(self.where(s), f"the loop body assigns {n}")
        brk = own_break(s.body)
        env0, prot0 = dict(self.env), set(self.protected)
        self.env[x] = "Z"
        self.protected.add(x)
        inner_tail = {"end": f"({self.tup(state)}, false)" if brk else self.tup(state),
                      "brk": f"({self.tup(state)}, true)" if brk else None, "ret": None}
        body = self.block(s.body, inner_tail, s)
        self.env, self.protected = env0, prot0  # the loop variable and the locals of the body do not survive
        if brk:
            head = f"for_break (py_range {lo} {hi}) (fun {x} {self.pat(state)} =>\n{body})\n{self.tup(state)}"
        else:
            head = f"fold_left (fun {self.pat(state)} {x} =>\n{body})\n(py_range {lo} {hi}) {self.tup(state)}"
        return f"let {self.pat(state)} := {head} in\n" + self.block(rest, tail, s)


# ---------------------------------------------------------------- locating the functions


def parse_module(path):
    if not os.path.isfile(path):
        fail(path, "file is missing")
    with open(path) as f:
        src = f.read()
    return src, ast.parse(src)


WANT = {"cst": "pandora.constants", "np": "numpy", "njit": "numba.njit", "math": "math",
        "find_valid_neighbors": "pandora.img_tools.find_valid_neighbors", "mask_border": "pandora.criteria.mask_border"}
BUILTINS = ("abs", "min", "max", "int", "range")


def check_imports(path, tree, need):
    seen = {}
    for n in tree.body:
        if isinstance(n, ast.Import):
            for a in n.names:
                seen[a.asname or a.name.split(".")[0]] = a.name
        elif isinstance(n, ast.ImportFrom) and n.level == 0:
            for a in n.names:
                seen[a.asname or a.name] = f"{n.module}.{a.name}"
    for alias in need:
        if seen.get(alias) != WANT[alias]:
            fail(path, f"the name {alias} is not {WANT[alias]} (found {seen.get(alias)!r})")
    for n in tree.body:  # no module-level rebinding of those aliases or of the builtins the translation interprets
        if isinstance(n, (ast.ClassDef, ast.Import, ast.ImportFrom)):
            continue
        names = [n.name] if isinstance(n, (ast.FunctionDef, ast.AsyncFunctionDef)) else \
            [t.id for t in ast.walk(n) if isinstance(t, ast.Name) and isinstance(t.ctx, ast.Store)]
        for nm in names:
            if nm in need or nm in BUILTINS:
                fail(f"{path}:{n.lineno}", f"the module rebinds {nm}")
    for alias, full in seen.items():
        if alias in BUILTINS:
            fail(path, f"the module imports {full} as {alias}")


def registered_class(path, tree, short_name):
    found = []
    for n in tree.body:
        if isinstance(n, ast.ClassDef):
            for d in n.decorator_list:
                if isinstance(d, ast.Call) and isinstance(d.func, ast.Attribute) and d.func.attr == "register_subclass" \
                        and len(d.args) == 1 and isinstance(d.args[0], ast.Constant) and d.args[0].value == short_name:
                    found.append(n)
    if len(found) != 1:
        fail(path, f"{len(found)} classes registered as {short_name!r}")
    return found[0]


def check_function(path, fn, decos_want, params):
    decos = []
    for d in fn.decorator_list:
        if isinstance(d, ast.Name):
            decos.append(d.id)
        elif isinstance(d, ast.Call) and isinstance(d.func, ast.Name):
            decos.append(d.func.id)
            # error_model / fastmath / boundscheck would change what the body means
            if d.args or any(k.arg not in ("cache",) for k in d.keywords):
                fail(f"{path}:{d.lineno}", f"decorator arguments not supported: {ast.unparse(d)}")
        else:
            fail(f"{path}:{d.lineno}", f"decorator not supported: {ast.unparse(d)}")
    if decos != decos_want:
        fail(f"{path}:{fn.lineno}", f"{fn.name} is decorated with {decos}, expected {decos_want}")
    a = fn.args
    if [x.arg for x in a.args] != params or a.vararg or a.kwarg or a.kwonlyargs or a.posonlyargs or a.defaults:
        fail(f"{path}:{fn.lineno}", f"unexpected signature of {fn.name}: {[x.arg for x in a.args]}")
    for n in ast.walk(fn):
        if isinstance(n, (ast.Global, ast.Nonlocal, ast.Lambda, ast.FunctionDef, ast.While, ast.Try, ast.With,
                          ast.Continue, ast.ListComp, ast.GeneratorExp, ast.NamedExpr, ast.Starred, ast.IfExp,
                          ast.Delete)) and n is not fn:
            fail(f"{path}:{n.lineno}", f"{type(n).__name__} inside {fn.name}")


def method_of(path, cls, name):
    fns = [n for n in cls.body if isinstance(n, ast.FunctionDef) and n.name == name]
    if len(fns) != 1:
        fail(f"{path}:{cls.lineno}", f"{len(fns)} definitions of {cls.name}.{name}")
    return fns[0]


def seg(src, fn):
    return "\n".join(src.splitlines()[fn.lineno - 1:fn.end_lineno])


def dirs_table(path, node):
    """dirs = np.array([[a, b], ...]) -> (type DZ | DQ, coq list)"""
    v = node.value
    if not (isinstance(v, ast.Call) and same_expr(v.func, "np.array") and len(v.args) == 1 and not v.keywords
            and isinstance(v.args[0], ast.List) and v.args[0].elts):
        fail(f"{path}:{node.lineno}", f"dirs is not np.array([[a, b], ...]): {ast.unparse(node)[:80]}")
    rows = []
    for r in v.args[0].elts:
        if not (isinstance(r, ast.List) and len(r.elts) == 2):
            fail(f"{path}:{r.lineno}", f"a row of dirs is not a pair: {ast.unparse(r)}")
        pair = []
        for x in r.elts:
            neg = isinstance(x, ast.UnaryOp) and isinstance(x.op, ast.USub)
            c = x.operand if neg else x
            if not (isinstance(c, ast.Constant) and isinstance(c.value, (int, float)) and not isinstance(c.value, bool)):
                fail(f"{path}:{x.lineno}", f"an entry of dirs is not a numeric literal: {ast.unparse(x)}")
            pair.append(-c.value if neg else c.value)
        rows.append(pair)
    kinds = {type(x) for p in rows for x in p}
    if kinds == {int}:
        return "DZ", "[" + "; ".join(f"({a}, {b})" for a, b in rows) + "]", "list (Z * Z)"
    if kinds == {float}:
        def q(v):
            f = Fraction(repr(v))
            if float(f) != v or v != v or abs(v) == float("inf"):
                fail(f"{path}:{node.lineno}", f"float literal {v!r} in dirs")
            return f"{f.numerator} # {f.denominator}"
        return "DQ", "[" + "; ".join(f"({q(a)}, {q(b)})" for a, b in rows) + "]%Q", "list (Q * Q)"
    fail(f"{path}:{node.lineno}", "dirs mixes int and float literals")


def translate_kernel(path, src, cls, name, coq_name):
    fn = method_of(path, cls, name)
    check_function(path, fn, ["staticmethod", "njit"], ["disp", "valid"])
    stmts = [s for s in fn.body if not is_doc(s)]
    loops = [i for i, s in enumerate(stmts) if isinstance(s, ast.For)]
    if len(loops) != 1 or loops[0] != len(stmts) - 2 or not same(stmts[-1], "return out_disp, out_val"):
        fail(f"{path}:{fn.lineno}", f"{name} is not `<prelude>; for col ...: for row ...: <body>; return out_disp, out_val`")
    outer = stmts[loops[0]]
    ok = isinstance(outer.target, ast.Name) and outer.target.id == "col" and same_expr(outer.iter, "range(ncol)") \
        and not outer.orelse and len(outer.body) == 1
    inner = outer.body[0] if ok else None
    ok = ok and isinstance(inner, ast.For) and isinstance(inner.target, ast.Name) and inner.target.id == "row" \
        and same_expr(inner.iter, "range(nrow)") and not inner.orelse
    if not ok:
        fail(f"{path}:{outer.lineno}", "the loop nest is not `for col in range(ncol): for row in range(nrow):`")
    # prelude
    need = {"out_disp = np.copy(disp)": False, "out_val = np.copy(valid)": False, "ncol, nrow = disp.shape": False}
    lets, defs = [], []
    env = {}
    for s in stmts[:loops[0]]:
        hit = [k for k in need if same(s, k)]
        if hit:
            if need[hit[0]]:
                fail(f"{path}:{s.lineno}", f"`{hit[0]}` twice")
            need[hit[0]] = True
            if hit[0].startswith("ncol"):
                env.update({"ncol": "Z", "nrow": "Z"})
            continue
        if isinstance(s, ast.Assign) and len(s.targets) == 1 and isinstance(s.targets[0], ast.Name):
            nm = s.targets[0].id
            if nm in env or nm in RESERVED or nm in ("disp", "valid", "col", "row", "out_disp", "out_val"):
                fail(f"{path}:{s.lineno}", f"the prelude (re)binds {nm}")
            if nm == "dirs":
                ty, text, coq_ty = dirs_table(path, s)
                defs.append(f"Definition {coq_name}_dirs : {coq_ty} := {text}.\n")
                lets.append(f"let dirs := {coq_name}_dirs in")
                env["dirs"] = ty
                continue
            tr = Tr(path, env, {}, set())
            t, ty = tr.expr(s.value)  # an int expression of ncol, nrow and earlier prelude names
            if ty != "Z":
                fail(f"{path}:{s.lineno}", f"prelude value of type {ty}: {ast.unparse(s)}")
            lets.append(f"let {nm} := {t} in")
            env[nm] = "Z"
            continue
        fail(f"{path}:{s.lineno}", f"prelude statement not supported: {ast.unparse(s).splitlines()[0][:90]}")
    missing = [k for k, v in need.items() if not v]
    if missing:
        fail(f"{path}:{fn.lineno}", f"{name} lacks `{missing[0]}` before its loops")
    env.update({"disp": "AF", "valid": "AZ", "col": "Z", "row": "Z"})
    tr = Tr(path, env, {"out_disp": "F", "out_val": "Z"}, set(env))
    body = tr.block(inner.body, {"end": "(out_disp, out_val)", "brk": None, "ret": None}, inner)
    text = "".join(defs)
    text += (f"(* {cls.name}.{name}: the body of the (col, row) loop nest on one pixel; the result is\n"
             f"   (out_disp[col, row], out_val[col, row]) *)\n"
             f"Definition {coq_name} (ncol nrow : Z) (disp : Z -> Z -> fl) (valid : Z -> Z -> Z) (col row : Z) : fl * Z :=\n")
    text += indent("\n".join(lets + ["let out_disp := rd2 ncol nrow disp col row in",
                                      "let out_val := rd2 ncol nrow valid col row in", body])) + ".\n\n"
    return text, (path, f"lines {fn.lineno}-{fn.end_lineno} ({cls.name}.{name})", sha1_of(seg(src, fn)))


def translate_fvn(path):
    src, tree = parse_module(path)
    check_imports(path, tree, ["cst", "np", "njit"])
    fns = [n for n in tree.body if isinstance(n, ast.FunctionDef) and n.name == "find_valid_neighbors"]
    if len(fns) != 1:
        fail(path, f"{len(fns)} definitions of find_valid_neighbors")
    fn = fns[0]
    check_function(path, fn, ["njit"], ["dirs", "disp", "valid", "row", "col"])
    stmts = [s for s in fn.body if not is_doc(s)]
    if not stmts or not same(stmts[0], "ncol, nrow = disp.shape"):
        fail(f"{path}:{fn.lineno}", "find_valid_neighbors does not start with `ncol, nrow = disp.shape`")
    env = {"dirs": "DZ", "disp": "AF", "valid": "AZ", "row": "Z", "col": "Z", "ncol": "Z", "nrow": "Z"}
    tr = Tr(path, env, {}, set(env))
    body = tr.block(stmts[1:], {"end": None, "brk": None, "ret": "LF"}, fn)
    text = ("(* img_tools.find_valid_neighbors(dirs, disp, valid, row, col); ncol, nrow = disp.shape *)\n"
            "Definition find_valid_neighbors (dirs : list (Z * Z)) (ncol nrow : Z) (disp : Z -> Z -> fl) (valid : Z -> Z -> Z)\n"
            "           (row col : Z) : list fl :=\n" + indent(body) + ".\n\n")
    return text, (path, f"lines {fn.lineno}-{fn.end_lineno} (find_valid_neighbors)", sha1_of(seg(src, fn)))


CALL = """
(left["disparity_map"].data, left["validity_mask"].data) = self.{k}(left["disparity_map"].data, left["validity_mask"].data)
"""
BORDER = """
if left.attrs["offset_row_col"] > 0:
    left["validity_mask"] = mask_border(left)
"""
KNAMES = {"interpolate_occlusion_mc_cnn": "KOccMc", "interpolate_mismatch_mc_cnn": "KMisMc",
          "interpolate_occlusion_sgm": "KOccSgm", "interpolate_mismatch_sgm": "KMisSgm"}


def translate_plan(path, cls, short_name, coq_name):
    """interpolated_disparity(self, left, ...): which kernels, in which order, each from the arrays of `left` back into
    them; then the attribute; then (or not) mask_border under offset_row_col > 0"""
    fn = method_of(path, cls, "interpolated_disparity")
    if [a.arg for a in fn.args.args] != ["self", "left", "img_left", "img_right", "cv"] or fn.decorator_list:
        fail(f"{path}:{fn.lineno}", "unexpected signature / decorator of interpolated_disparity")
    stmts = [s for s in fn.body if not is_doc(s)]
    ks = []
    while stmts and isinstance(stmts[0], ast.Assign):
        s = stmts[0]
        v = s.value
        if not (isinstance(v, ast.Call) and isinstance(v.func, ast.Attribute) and v.func.attr in KNAMES):
            break
        if not same(s, CALL.format(k=v.func.attr)):
            fail(f"{path}:{s.lineno}", f"the kernel call is not `{CALL.format(k=v.func.attr).strip()}`")
        if method_of(path, cls, v.func.attr) is None:
            fail(f"{path}:{s.lineno}", f"{v.func.attr} is not a method of {cls.name}")
        ks.append(KNAMES[v.func.attr])
        stmts = stmts[1:]
    if not ks or not stmts or not same(stmts[0], f'left.attrs["interpolated_disparity"] = "{short_name}"'):
        fail(f"{path}:{fn.lineno}", "interpolated_disparity is not `<kernel calls>; left.attrs[...] = <name>; [mask_border]`")
    stmts = stmts[1:]
    border = False
    if stmts:
        if len(stmts) != 1 or not same(stmts[0], BORDER):
            fail(f"{path}:{stmts[0].lineno}", f"unexpected end of interpolated_disparity: {ast.unparse(stmts[0])[:80]}")
        border = True
    return (f"(* {cls.name}.interpolated_disparity: the kernels in call order, each from left's disparity map and validity\n"
            f"   mask back into them; true = followed by mask_border(left) when offset_row_col > 0 *)\n"
            f"Definition {coq_name} : list kname * bool := ([{'; '.join(ks)}], {'true' if border else 'false'}).\n\n")


HEADER = """From Coq Require Import ZArith QArith List Bool.
From Pandora Require Import Lib.FloatQ Model.Interp Model.InterpPrims Gen.ValConst.
Import ListNotations.
Open Scope Z_scope.

"""


def indent(text, pad="  "):
    return "\n".join(pad + l for l in text.splitlines())


def main():
    try:
        translate()
    except BaseException as exc:
        # fail closed: no stale kernels from an earlier run may stay behind for Proofs/InterpGenP.v to be checked
        # against; an empty file makes the equality obligations (and what is built on them) fail to build
        msg = f"{type(exc).__name__}: {exc}".replace("*)", "* )").replace("(*", "( *")
        emit("InterpKernels", f"(* TRANSLATION FAILED, nothing generated:\n   {msg}\n*)\n", [])
        raise


def translate():
    ipath = os.path.join(REPO, "pandora", "validation", "interpolated_disparity.py")
    src, tree = parse_module(ipath)
    check_imports(ipath, tree, ["cst", "np", "njit", "math", "find_valid_neighbors", "mask_border"])
    fvn, s0 = translate_fvn(os.path.join(REPO, "pandora", "img_tools.py"))
    mc = registered_class(ipath, tree, "mc-cnn")
    sgm = registered_class(ipath, tree, "sgm")
    body = HEADER + fvn
    sources = [s0]
    for cls, name, coq_name in ((mc, "interpolate_occlusion_mc_cnn", "occ_mc_pixel"),
                                (mc, "interpolate_mismatch_mc_cnn", "mis_mc_pixel"),
                                (sgm, "interpolate_occlusion_sgm", "occ_sgm_pixel"),
                                (sgm, "interpolate_mismatch_sgm", "mis_sgm_pixel")):
        text, s = translate_kernel(ipath, src, cls, name, coq_name)
        body += text
        sources.append(s)
    for cls, short, coq_name in ((mc, "mc-cnn", "mc_cnn_plan"), (sgm, "sgm", "sgm_plan")):
        body += translate_plan(ipath, cls, short, coq_name)
        fn = method_of(ipath, cls, "interpolated_disparity")
        sources.append((ipath, f"lines {fn.lineno}-{fn.end_lineno} ({cls.name}.interpolated_disparity)",
                        sha1_of(seg(src, fn))))
    path, changed = emit("InterpKernels", body, sources)
    print(f"gen_interp_kernels: {path} {'rewritten' if changed else 'unchanged'} "
          + " ".join(f"{s[1].split('(')[-1].rstrip(')').split('.')[-1]}={s[2][:8]}" for s in sources))


if __name__ == "__main__":
    try:
        main()
    except Exception as exc:  # fail closed, one line for the caller
        print(f"TRANSLATION-ERROR gen_interp_kernels: {type(exc).__name__}: {exc}")
        sys.exit(3)
