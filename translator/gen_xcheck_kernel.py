"""T-gen: coq/Gen/XCheckKernel.v from CrossCheckingAccurate.disparity_checking (pandora/validation/validation.py)
and the two helpers it calls for the disparity range (pandora/disparity/disparity.py), Python `ast`, fail closed.

The method has the shape  <prelude>; for row in range(0, nb_row): <body>; <epilogue>; return dataset_left.  It becomes

  g_extract_interval / g_extract_disparity_range   the two helpers of disparity.py
  g_row p_threshold v_nb_col v_disparity_range mask_row dl_row dr_row conf_row : option (ivec * vec)
        -- the body of the row loop on ONE row: the cells it reads (row `row` of dataset_left validity_mask,
           dataset_left disparity_map, dataset_right disparity_map, conf_measure) and the two it writes (validity_mask,
           conf_measure); the translator checks that the four arrays are only ever indexed with [row, ...] inside the
           loop, so the iterations touch disjoint rows
  g_disparity_checking h_allocate_confidence_map h_mask_border p_threshold v_dataset_left v_dataset_right : option xds
        -- prelude, rows_loop g_row, epilogue, over the dataset record of Model/XCheckGen.v; the two callees of the
           epilogue are parameters (the theorems instantiate them with the model's band append and mask_border)

over the numpy semantics of coq/Lib/NpVec.v + coq/Lib/NpRow.v (floats = xf, ints = Z, uint16 stores reduced modulo
65536, 1-D arrays = lists, 2-D arrays = flat row-major fmat).  Statement by statement (body of the loop):

    x = e                                   ->  let v_x := e in ...      (a bare name / a basic slice / a transpose on
                                                the right is refused: alias or view)
    x[m] = s   (x a fresh local copy)       ->  match v_setmask v_x m s with None => None | Some v_x => ...
    x[w2] = e  (x fresh 2-D, w2 = np.where of a 2-D test)   ->  match fm_scatter2 v_x w2 e with ...
    conf_measure[row, i] = e                ->  match v_scatter conf_row i e with None => None | Some conf_row => ...
    <left mask>[row, i] += e / -= e         ->  match v_iadd_u16(_s) / v_isub_u16 mask_row i e with ... Some mask_row => ...
    every operation numpy can refuse        ->  match <op> with None => None | Some tmpN => ... end (hoisted in evaluation
    (fancy index, two-array elementwise op, mask index, 2-D gather / scatter)    order)
Expressions: np.where / np.arange / np.rint / np.abs / np.isnan / np.tile(v, (n, 1)) / np.full(m.shape, np.inf) /
np.sum(b, axis=1) / len / .astype(int | np.float32 | np.uint16) / .transpose() / + * & | / comparisons / cst.<NAME>
(-> Gen.ValConst) / self._threshold (-> p_threshold; __init__ must set it once from cfg["cross_checking_threshold"]).
In-place writes are accepted only into a local bound to a COPY (fancy indexing, arithmetic, np.sum, np.full).
Anything else (another statement, operator, call, subscript, name, keyword, decorator, signature, loop header, prelude
or epilogue statement) is a TranslationError naming file:line.
The per-run obligations are in Proofs/XCheckGenP.v (generated = Model/CrossCheck.v for ALL inputs) and Props/C07.v."""
import ast
import os
import re
import sys

from common import emit, fail, sha1_of, REPO

COQ_TYPE = {"I": "Z", "F": "xf", "IV": "ivec", "V": "vec", "BV": "bvec", "FM": "fmat xf", "IM": "fmat Z",
            "BM": "fmat bool", "W1": "ivec", "W2": "list (Z * Z)"}
Z_CMP = {ast.Lt: "Z.ltb", ast.Gt: "Z.gtb", ast.LtE: "Z.leb", ast.GtE: "Z.geb", ast.Eq: "Z.eqb"}
F_CMP = {ast.Lt: "xlt", ast.Gt: "xgt", ast.LtE: "xle", ast.GtE: "xge", ast.Eq: "xeqb"}
CONSTS = ["PANDORA_MSK_PIXEL_INVALID", "PANDORA_MSK_PIXEL_LEFT_NODATA_OR_BORDER", "PANDORA_MSK_PIXEL_FILLED_OCCLUSION",
          "PANDORA_MSK_PIXEL_FILLED_MISMATCH", "PANDORA_MSK_PIXEL_OCCLUSION", "PANDORA_MSK_PIXEL_MISMATCH"]

# the arrays the loop may index, only with [row, ...]: python expression -> (cell, type, how it may be written)
CELLS = {
    'dataset_left["validity_mask"].data': ("mask_row", "IV", "aug"),
    'dataset_left["disparity_map"].data': ("dl_row", "V", None),
    'dataset_right["disparity_map"].data': ("dr_row", "V", None),
    "conf_measure": ("conf_row", "V", "set"),
}


def same(node, text):
    return ast.dump(node) == ast.dump(ast.parse(text).body[0])


def same_expr(node, text):
    return ast.dump(node) == ast.dump(ast.parse(text, mode="eval").body)


def is_np(e, attr):
    return isinstance(e, ast.Attribute) and isinstance(e.value, ast.Name) and e.value.id == "np" and e.attr == attr


def np_call(e, name):
    return isinstance(e, ast.Call) and is_np(e.func, name)


def is_int(node, v):
    return isinstance(node, ast.Constant) and type(node.value) is int and node.value == v


def full_slice(s):
    return isinstance(s, ast.Slice) and s.lower is None and s.upper is None and s.step is None


class Tr:
    """the body of the row loop; env: python local -> type"""

    def __init__(self, fname):
        self.fname = fname
        self.env = {}
        self.frozen = set()
        self.fresh = set()
        self.pre = []
        self.ntmp = 0

    def where(self, node):
        return f"{self.fname}:{getattr(node, 'lineno', '?')}"

    def hoist(self, scrutinee):
        self.ntmp += 1
        t = f"tmp{self.ntmp}"
        self.pre.append(f"match {scrutinee} with None => None | Some {t} =>\n")
        return t

    @staticmethod
    def wrap(pre, inner):
        for h in reversed(pre):
            inner = h + inner + " end"
        return inner

    # ------------------------------------------------------------ cells
    def cell_of(self, e):
        """e = <array>[row, X] with <array> one of CELLS -> (cell, type, writable, X) else None"""
        if not isinstance(e, ast.Subscript):
            return None
        key = ast.unparse(e.value).replace("'", '"')
        if key not in CELLS:
            return None
        s = e.slice
        if not (isinstance(s, ast.Tuple) and len(s.elts) == 2 and isinstance(s.elts[0], ast.Name)
                and s.elts[0].id == "row"):
            fail(self.where(e), f"{key} is indexed with something else than [row, ...]: {ast.unparse(e)}")
        return CELLS[key] + (s.elts[1],)

    def check_no_whole_array(self, node):
        """inside the loop the four arrays (and the datasets) only appear as <array>[row, X]"""
        allowed = set()
        for n in ast.walk(node):
            if isinstance(n, ast.Subscript) and ast.unparse(n.value).replace("'", '"') in CELLS:
                for m in ast.walk(n.value):
                    allowed.add(id(m))
        for n in ast.walk(node):
            if isinstance(n, ast.Name) and n.id in ("dataset_left", "dataset_right", "conf_measure", "cv", "img_left",
                                                    "img_right") and id(n) not in allowed:
                fail(self.where(n), f"{n.id} is used inside the row loop otherwise than as one of "
                                    f"{sorted(CELLS)} indexed with [row, ...]")

    # ------------------------------------------------------------ expressions
    def expr(self, e):
        """-> (coq text, type)"""
        if isinstance(e, ast.Constant):
            if type(e.value) is int:
                return (f"({e.value})", "I")
            fail(self.where(e), f"literal {e.value!r} not supported")
        if isinstance(e, ast.UnaryOp) and isinstance(e.op, ast.USub) and isinstance(e.operand, ast.Constant) \
                and type(e.operand.value) is int:
            return (f"(-{e.operand.value})", "I")
        if isinstance(e, ast.Name):
            if e.id in self.env:
                return ("v_" + e.id, self.env[e.id])
            fail(self.where(e), f"unknown name {e.id}")
        if isinstance(e, ast.Attribute):
            if is_np(e, "inf"):
                return ("XPInf", "F")
            if is_np(e, "nan"):
                return ("XNaN", "F")
            if isinstance(e.value, ast.Name) and e.value.id == "cst" and e.attr in CONSTS:
                return (f"ValConst.{e.attr}", "I")
            if same_expr(e, "self._threshold"):
                return ("p_threshold", "F")
            fail(self.where(e), f"attribute not supported: {ast.unparse(e)}")
        if isinstance(e, ast.Subscript):
            c = self.cell_of(e)
            if c is not None:
                cell, cty, _, ix = c
                if full_slice(ix):
                    return (cell, cty + "view")       # a VIEW of the row: only usable inside an expression
                t, ty = self.expr(ix)
                if ty in ("IV", "W1"):
                    return (self.hoist(f"v_take {cell} {t}"), cty)
                fail(self.where(e), f"index of type {ty} into a row: {ast.unparse(e)}")
            base, bty = self.value(e.value)
            if isinstance(e.slice, (ast.Tuple, ast.Slice)):
                fail(self.where(e), f"subscript not supported: {ast.unparse(e)}")
            i, ity = self.expr(e.slice)
            if bty in ("IV", "V", "BV") and ity in ("IV", "W1"):
                return (self.hoist(f"v_take {base} {i}"), bty)
            if bty in ("IV", "V", "BV") and ity == "BV":
                return (self.hoist(f"v_mask {base} {i}"), bty)
            if bty in ("FM", "IM") and ity == "W2":
                return (self.hoist(f"fm_take2 {base} {i}"), "V" if bty == "FM" else "IV")
            fail(self.where(e), f"subscript of a {bty} with a {ity} not supported: {ast.unparse(e)}")
        if isinstance(e, ast.BinOp):
            return self.binop(e)
        if isinstance(e, ast.Compare):
            if len(e.ops) != 1:
                fail(self.where(e), f"chained comparison: {ast.unparse(e)}")
            return self.compare(e, type(e.ops[0]), self.value(e.left), self.value(e.comparators[0]))
        if isinstance(e, ast.Call):
            return self.call(e)
        fail(self.where(e), f"expression shape not supported: {ast.unparse(e)}")

    def value(self, e):
        """an operand: a view of a row is read as the row"""
        t, ty = self.expr(e)
        if ty.endswith("view"):
            return (t, ty[:-4])
        return (t, ty)

    def as_f(self, node, tv):
        if tv[1] == "F":
            return tv[0]
        if tv[1] == "I":
            return f"(xofz {tv[0]})"
        fail(self.where(node), f"a {tv[1]} is used as a scalar number")

    def binop(self, e):
        a, b = self.value(e.left), self.value(e.right)
        op = type(e.op)
        ta, tb = a[1], b[1]
        if op is ast.Add:
            if (ta, tb) == ("I", "I"):
                return (f"({a[0]} + {b[0]})", "I")
            if (ta, tb) == ("IV", "IV"):
                return (self.hoist(f"vv2 Z.add {a[0]} {b[0]}"), "IV")
            if (ta, tb) == ("V", "V"):
                return (self.hoist(f"vv2 xadd {a[0]} {b[0]}"), "V")
            if (ta, tb) == ("FM", "FM"):
                return (self.hoist(f"fm_zip xadd {a[0]} {b[0]}"), "FM")
            if (ta, tb) == ("FM", "IM"):     # float32 + int64 -> float: the ints are promoted
                return (self.hoist(f"fm_zip xadd {a[0]} (fm_map xofz {b[0]})"), "FM")
            if (ta, tb) == ("IM", "FM"):
                return (self.hoist(f"fm_zip xadd (fm_map xofz {a[0]}) {b[0]}"), "FM")
        if op is ast.Mult:
            if (ta, tb) == ("I", "I"):
                return (f"({a[0]} * {b[0]})", "I")
            if (ta, tb) == ("I", "IV"):
                return (f"(sv Z.mul {a[0]} {b[0]})", "IV")
            if (ta, tb) == ("IV", "I"):
                return (f"(vs Z.mul {a[0]} {b[0]})", "IV")
        if op is ast.BitAnd:
            if (ta, tb) == ("IV", "I"):
                return (f"(vs Z.land {a[0]} {b[0]})", "IV")
            if (ta, tb) == ("BV", "BV"):
                return (self.hoist(f"vv2 andb {a[0]} {b[0]}"), "BV")
            if (ta, tb) == ("BM", "BM"):
                return (self.hoist(f"fm_zip andb {a[0]} {b[0]}"), "BM")
        if op is ast.BitOr:
            if (ta, tb) == ("BV", "BV"):
                return (self.hoist(f"vv2 orb {a[0]} {b[0]}"), "BV")
        fail(self.where(e), f"operator {op.__name__} on {ta}, {tb} not supported: {ast.unparse(e)}")

    def compare(self, e, op, a, b):
        ta, tb = a[1], b[1]
        if ta == "IV" and tb == "I" and op in Z_CMP:
            return (f"(vs {Z_CMP[op]} {a[0]} {b[0]})", "BV")
        if ta == "V" and tb in ("F", "I") and op in F_CMP:
            return (f"(vs {F_CMP[op]} {a[0]} {self.as_f(e, b)})", "BV")
        if ta == "FM" and tb in ("F", "I") and op in F_CMP:
            return (f"(fm_map (fun x => {F_CMP[op]} x {self.as_f(e, b)}) {a[0]})", "BM")
        if ta == "FM" and tb == "FM" and op in F_CMP:
            return (self.hoist(f"fm_zip {F_CMP[op]} {a[0]} {b[0]}"), "BM")
        fail(self.where(e), f"comparison {op.__name__} on {ta}, {tb} not supported: {ast.unparse(e)}")

    def call(self, e):
        kw = {k.arg: k.value for k in e.keywords}
        f = e.func
        if isinstance(f, ast.Name):
            if f.id == "len" and len(e.args) == 1 and not kw and "len" not in self.env:
                t, ty = self.value(e.args[0])
                if ty in ("IV", "V", "BV"):
                    return (f"(vlen {t})", "I")
            fail(self.where(e), f"call not supported: {ast.unparse(e)}")
        if isinstance(f, ast.Attribute) and isinstance(f.value, ast.Name) and f.value.id == "np":
            n = f.attr
            if n == "where" and len(e.args) == 1 and not kw:
                t, ty = self.value(e.args[0])
                if ty == "BV":
                    return (f"(np_where1 {t})", "W1")
                if ty == "BM":
                    return (f"(np_where2 {t})", "W2")
            if n == "arange" and len(e.args) == 1 and (not kw or (list(kw) == ["dtype"] and is_np(kw["dtype"], "int64"))):
                t, ty = self.value(e.args[0])
                if ty == "I":
                    return (f"(np_arange {t})", "IV")
            if n == "rint" and len(e.args) == 1 and not kw:
                t, ty = self.value(e.args[0])
                if ty == "V":
                    return (f"(map xrint {t})", "V")
                if ty == "FM":
                    return (f"(fm_map xrint {t})", "FM")
            if n == "abs" and len(e.args) == 1 and not kw:
                t, ty = self.value(e.args[0])
                if ty == "V":
                    return (f"(map xabs {t})", "V")
            if n == "isnan" and len(e.args) == 1 and not kw:
                t, ty = self.value(e.args[0])
                if ty == "V":
                    return (f"(map xisnan {t})", "BV")
            if n == "tile" and len(e.args) == 2 and not kw:
                t, ty = self.value(e.args[0])
                r = e.args[1]
                if ty == "IV" and isinstance(r, ast.Tuple) and len(r.elts) == 2 and is_int(r.elts[1], 1):
                    k, kty = self.value(r.elts[0])
                    if kty == "I":
                        return (f"(np_tile_rows {t} {k})", "IM")
            if n == "full" and len(e.args) == 2 and list(kw) == ["dtype"] and is_np(kw["dtype"], "float32"):
                s = e.args[0]
                if isinstance(s, ast.Attribute) and s.attr == "shape" and is_np(e.args[1], "inf"):
                    t, ty = self.value(s.value)
                    if ty in ("FM", "IM", "BM"):
                        return (f"(fm_full_like {t} XPInf)", "FM")
            if n == "sum" and len(e.args) == 1 and list(kw) == ["axis"] and is_int(kw["axis"], 1):
                t, ty = self.value(e.args[0])
                if ty == "BM":
                    return (f"(fbm_sum1 {t})", "IV")
            fail(self.where(e), f"numpy call not supported: {ast.unparse(e)}")
        if isinstance(f, ast.Attribute) and not kw:
            t, ty = self.value(f.value)
            if f.attr == "astype" and len(e.args) == 1:
                a = e.args[0]
                if isinstance(a, ast.Name) and a.id == "int" and "int" not in self.env:
                    if ty == "V":
                        return (f"(map x_to_int {t})", "IV")
                elif is_np(a, "float32"):
                    if ty == "IM":
                        return (f"(fm_map xofz {t})", "FM")
                    if ty == "IV":
                        return (f"(v_ofz {t})", "V")
                elif is_np(a, "uint16"):
                    if ty == "IV":
                        return (f"(map u16 {t})", "IV")
            if f.attr == "transpose" and not e.args and ty in ("FM", "IM", "BM"):
                return (f"(fm_T {t})", ty + "view")
        fail(self.where(e), f"call not supported: {ast.unparse(e)}")

    # ------------------------------------------------------------ statements
    COPY_CALLS = ("rint", "abs", "isnan", "tile", "full", "sum", "arange", "where")

    def is_copy(self, v):
        """does the expression evaluate to a new array nobody else holds"""
        if isinstance(v, (ast.BinOp, ast.Compare)):
            return True
        if isinstance(v, ast.Call):
            if isinstance(v.func, ast.Attribute) and isinstance(v.func.value, ast.Name) and v.func.value.id == "np" \
                    and v.func.attr in self.COPY_CALLS:
                return True
            if isinstance(v.func, ast.Attribute) and v.func.attr == "astype":
                return True
            return False
        if isinstance(v, ast.Subscript):
            # advanced (integer-array / boolean-array) indexing copies; basic slicing does not
            c = self.cell_of(v)
            ix = c[3] if c is not None else v.slice
            return not isinstance(ix, (ast.Slice, ast.Tuple)) and not (isinstance(ix, ast.Constant))
        return False

    def bind(self, node, name, ty, value):
        if name in self.frozen or name in ("row", "self", "np", "cst", "len", "int"):
            fail(self.where(node), f"assignment to {name}")
        if ty.endswith("view") and not isinstance(value, ast.BinOp):
            # a transpose bound to a name: a view of a copy nobody else holds is accepted, never written in place
            base = value.func.value if isinstance(value, ast.Call) and isinstance(value.func, ast.Attribute) else None
            if not (base is not None and self.is_copy(base)):
                fail(self.where(node), f"{name} is bound to a view: {ast.unparse(value)}")
            ty = ty[:-4]
            self.env[name] = ty
            self.fresh.discard(name)
            return
        self.env[name] = ty
        self.fresh.discard(name)
        if self.is_copy(value):
            self.fresh.add(name)

    def block(self, stmts, end):
        if not stmts:
            return end
        s, rest = stmts[0], stmts[1:]
        if isinstance(s, ast.Expr) and isinstance(s.value, ast.Constant) and isinstance(s.value.value, str):
            return self.block(rest, end)
        self.pre = []
        if isinstance(s, ast.Assign) and len(s.targets) == 1:
            tgt = s.targets[0]
            if isinstance(tgt, ast.Name):
                if isinstance(s.value, ast.Name):
                    fail(self.where(s), f"alias of another variable: {ast.unparse(s)}")
                t, ty = self.expr(s.value)
                pre = self.pre
                self.bind(s, tgt.id, ty, s.value)
                return self.wrap(pre, f"let v_{tgt.id} := {t} in\n" + self.block(rest, end))
            if isinstance(tgt, ast.Subscript):
                c = self.cell_of(tgt)
                if c is not None:
                    cell, cty, how, ix = c
                    if how != "set":
                        fail(self.where(s), f"plain store into {ast.unparse(tgt.value)}")
                    i, ity = self.value(ix)
                    v, vty = self.value(s.value)
                    if ity not in ("IV", "W1") or vty != cty:
                        fail(self.where(s), f"store of a {vty} at a {ity}: {ast.unparse(s)}")
                    new = self.hoist(f"v_scatter {cell} {i} {v}")
                    pre = self.pre
                    return self.wrap(pre, f"let {cell} := {new} in\n" + self.block(rest, end))
                if not (isinstance(tgt.value, ast.Name) and tgt.value.id in self.env):
                    fail(self.where(s), f"store target not supported: {ast.unparse(tgt)}")
                x = tgt.value.id
                if x not in self.fresh or x in self.frozen:
                    fail(self.where(s), f"in-place write into {x}, which may be a view, an alias or an input")
                xty = self.env[x]
                if isinstance(tgt.slice, (ast.Tuple, ast.Slice)):
                    fail(self.where(s), f"store not supported: {ast.unparse(tgt)}")
                i, ity = self.value(tgt.slice)
                v, vty = self.value(s.value)
                if xty == "V" and ity == "BV" and vty in ("F", "I"):
                    new = self.hoist(f"v_setmask v_{x} {i} {self.as_f(s, (v, vty))}")
                elif xty == "IV" and ity == "BV" and vty == "I":
                    new = self.hoist(f"v_setmask v_{x} {i} {v}")
                elif xty == "FM" and ity == "W2" and vty == "V":
                    new = self.hoist(f"fm_scatter2 v_{x} {i} {v}")
                else:
                    fail(self.where(s), f"store of a {vty} into a {xty} at a {ity} not supported: {ast.unparse(s)}")
                pre = self.pre
                return self.wrap(pre, f"let v_{x} := {new} in\n" + self.block(rest, end))
        if isinstance(s, ast.AugAssign) and isinstance(s.op, (ast.Add, ast.Sub)) and isinstance(s.target, ast.Subscript):
            c = self.cell_of(s.target)
            if c is None or c[2] != "aug":
                fail(self.where(s), f"augmented assignment target not supported: {ast.unparse(s.target)}")
            cell, _, _, ix = c
            i, ity = self.value(ix)
            v, vty = self.value(s.value)
            if ity not in ("IV", "W1"):
                fail(self.where(s), f"augmented assignment at a {ity}: {ast.unparse(s)}")
            if isinstance(s.op, ast.Add) and vty == "I":
                new = self.hoist(f"v_iadd_u16_s {cell} {i} {v}")
            elif vty == "IV":
                new = self.hoist(f"{'v_iadd_u16' if isinstance(s.op, ast.Add) else 'v_isub_u16'} {cell} {i} {v}")
            else:
                fail(self.where(s), f"augmented assignment of a {vty}: {ast.unparse(s)}")
            pre = self.pre
            return self.wrap(pre, f"let {cell} := {new} in\n" + self.block(rest, end))
        fail(self.where(s), f"statement shape not supported: {ast.unparse(s).splitlines()[0]}")


# ---------------------------------------------------------------- framing


def parse_module(path):
    if not os.path.isfile(path):
        fail(path, "file is missing")
    with open(path) as f:
        src = f.read()
    return src, ast.parse(src)


def imports_of(tree):
    seen = {}
    for n in tree.body:
        if isinstance(n, ast.Import):
            for a in n.names:
                seen[a.asname or a.name.split(".")[0]] = a.name
        elif isinstance(n, ast.ImportFrom) and n.level == 0:
            for a in n.names:
                seen[a.asname or a.name] = f"{n.module}.{a.name}"
    return seen


def check_names(path, tree, want):
    seen = imports_of(tree)
    for alias, full in want.items():
        if seen.get(alias) != full:
            fail(path, f"the name {alias} is not {full} (found {seen.get(alias)!r})")
    guarded = set(want) | {"len", "int", "range"}
    for n in ast.walk(tree):
        if isinstance(n, ast.Name) and isinstance(n.ctx, (ast.Store, ast.Del)) and n.id in guarded:
            fail(f"{path}:{n.lineno}", f"the module rebinds {n.id}")
        if isinstance(n, (ast.FunctionDef, ast.ClassDef)) and n.name in guarded and n.name not in want:
            fail(f"{path}:{n.lineno}", f"the module defines {n.name}")
        if isinstance(n, ast.arg) and n.arg in guarded:
            fail(f"{path}:{n.lineno}", f"a parameter is named {n.arg}")
    for alias, full in seen.items():
        if alias in ("len", "int", "range"):
            fail(path, f"the module imports {full} as {alias}")


def body_of(fn):
    return [s for s in fn.body
            if not (isinstance(s, ast.Expr) and isinstance(s.value, ast.Constant) and isinstance(s.value.value, str))]


def plain_params(path, fn, names, defaults_none=0):
    a = fn.args
    ok = [x.arg for x in a.args] == names and not (a.vararg or a.kwarg or a.kwonlyargs or a.posonlyargs) \
        and len(a.defaults) == defaults_none and all(isinstance(d, ast.Constant) and d.value is None for d in a.defaults)
    if not ok:
        fail(f"{path}:{fn.lineno}", f"unexpected parameters of {fn.name}: {ast.unparse(a)}")


def segment(src, fn):
    return "\n".join(src.splitlines()[fn.lineno - 1:fn.end_lineno])


def translate_helpers():
    """extract_interval_from_disparity_map / extract_disparity_range_from_disparity_map of disparity.py"""
    path = os.path.join(REPO, "pandora", "disparity", "disparity.py")
    src, tree = parse_module(path)
    check_names(path, tree, {"np": "numpy"})
    fns = {n.name: n for n in tree.body if isinstance(n, ast.FunctionDef)}
    out, sources = "", []
    # -- extract_interval_from_disparity_map
    name = "extract_interval_from_disparity_map"
    dup = [n for n in ast.walk(tree) if isinstance(n, ast.FunctionDef)
           and n.name in (name, "extract_disparity_range_from_disparity_map")]
    if len(dup) != 2 or name not in fns or "extract_disparity_range_from_disparity_map" not in fns:
        fail(path, "the two disparity-range helpers are not defined exactly once at module level")
    fn = fns[name]
    plain_params(path, fn, ["disparity_map"])
    if fn.decorator_list:
        fail(f"{path}:{fn.lineno}", f"{name} is decorated")
    b = body_of(fn)
    if not (len(b) == 2 and same(b[0], 'disparity_min, disparity_max = disparity_map["disparity_interval"]')
            and same(b[1], "return int(disparity_min), int(disparity_max)")):
        fail(f"{path}:{fn.lineno}", f"{name}: body not of the expected shape")
    out += ("(* pandora/disparity/disparity.py extract_interval_from_disparity_map: the two entries of disparity_interval,\n"
            "   through int() (the identity on the integers the record holds) *)\n"
            "Definition g_extract_interval (v_disparity_map : xds) : Z * Z :=\n"
            "  let '(v_disparity_min, v_disparity_max) := x_interval v_disparity_map in\n"
            "  (py_int v_disparity_min, py_int v_disparity_max).\n\n")
    sources.append((path, f"lines {fn.lineno}-{fn.end_lineno} ({name})", sha1_of(segment(src, fn))))
    # -- extract_disparity_range_from_disparity_map
    name = "extract_disparity_range_from_disparity_map"
    fn = fns[name]
    plain_params(path, fn, ["disparity_map"])
    if fn.decorator_list:
        fail(f"{path}:{fn.lineno}", f"{name} is decorated")
    b = body_of(fn)
    if not (len(b) == 2
            and same(b[0], "disparity_min, disparity_max = extract_interval_from_disparity_map(disparity_map)")
            and same(b[1], "return np.arange(disparity_min, disparity_max + 1)")):
        fail(f"{path}:{fn.lineno}", f"{name}: body not of the expected shape")
    out += ("(* pandora/disparity/disparity.py extract_disparity_range_from_disparity_map *)\n"
            "Definition g_extract_disparity_range (v_disparity_map : xds) : ivec :=\n"
            "  let '(v_disparity_min, v_disparity_max) := g_extract_interval v_disparity_map in\n"
            "  (np_arange2 v_disparity_min (v_disparity_max + 1)).\n\n")
    sources.append((path, f"lines {fn.lineno}-{fn.end_lineno} ({name})", sha1_of(segment(src, fn))))
    return out, sources


PRELUDE = [
    ('nb_row, nb_col = dataset_left["disparity_map"].shape',
     "let '(v_nb_row, v_nb_col) := x_shape v_dataset_left in"),
    ("disparity_range = extract_disparity_range_from_disparity_map(dataset_left)",
     "let v_disparity_range := g_extract_disparity_range v_dataset_left in"),
    ("conf_measure = np.full((nb_row, nb_col), np.nan, dtype=np.float32)",
     "let v_conf_measure := np_full2 v_nb_row v_nb_col XNaN in"),
]
EPILOGUE = [
    ('dataset_left.attrs["validation"] = "cross_checking_accurate"',
     "let v_dataset_left := x_set_validation v_dataset_left in"),
    ('dataset_left, _ = AbstractCostVolumeConfidence.allocate_confidence_map("left_right_consistency", conf_measure, '
     'dataset_left, cv)',
     "let v_dataset_left := h_allocate_confidence_map v_conf_measure v_dataset_left in"),
    ('if dataset_left.attrs["offset_row_col"] > 0:\n    dataset_left["validity_mask"] = mask_border(dataset_left)',
     "let v_dataset_left := if (x_offset v_dataset_left >? 0) then x_set_mask v_dataset_left (h_mask_border v_dataset_left) "
     "else v_dataset_left in"),
    ("return dataset_left", "Some v_dataset_left"),
]


def indent(text, pad="  "):
    return "\n".join(pad + l for l in text.splitlines())


def translate_method():
    path = os.path.join(REPO, "pandora", "validation", "validation.py")
    src, tree = parse_module(path)
    check_names(path, tree, {
        "np": "numpy", "cst": "pandora.constants", "mask_border": "pandora.criteria.mask_border",
        "extract_disparity_range_from_disparity_map": "pandora.disparity.extract_disparity_range_from_disparity_map",
        "AbstractCostVolumeConfidence": "pandora.cost_volume_confidence.cost_volume_confidence.AbstractCostVolumeConfidence",
    })
    cls = [n for n in tree.body if isinstance(n, ast.ClassDef) and n.name == "CrossCheckingAccurate"]
    if len(cls) != 1:
        fail(path, f"{len(cls)} classes named CrossCheckingAccurate")
    cls = cls[0]
    want = 'AbstractValidation.register_subclass("cross_checking_accurate")'
    if [ast.dump(d) for d in cls.decorator_list] != [ast.dump(ast.parse(want, mode="eval").body)]:
        fail(f"{path}:{cls.lineno}", f"CrossCheckingAccurate is not decorated with exactly @{want}")
    regs = [n for n in ast.walk(tree) if isinstance(n, ast.Constant) and n.value == "cross_checking_accurate"
            and any(isinstance(p, ast.Call) and n in p.args and isinstance(p.func, ast.Attribute)
                    and p.func.attr == "register_subclass" for p in ast.walk(tree))]
    if len(regs) != 1:
        fail(path, "cross_checking_accurate is registered more than once")
    fns = [n for n in cls.body if isinstance(n, ast.FunctionDef) and n.name == "disparity_checking"]
    if len(fns) != 1:
        fail(f"{path}:{cls.lineno}", f"{len(fns)} definitions of CrossCheckingAccurate.disparity_checking")
    fn = fns[0]
    if fn.decorator_list:
        fail(f"{path}:{fn.lineno}", "disparity_checking is decorated")
    plain_params(path, fn, ["self", "dataset_left", "dataset_right", "img_left", "img_right", "cv"], 3)
    for n in ast.walk(fn):
        if isinstance(n, (ast.Global, ast.Nonlocal, ast.Lambda, ast.FunctionDef, ast.Try, ast.With, ast.While,
                          ast.Break, ast.Continue, ast.ListComp, ast.GeneratorExp, ast.NamedExpr, ast.Starred,
                          ast.Delete, ast.Yield, ast.Await)) and n is not fn:
            fail(f"{path}:{n.lineno}", f"{type(n).__name__} inside disparity_checking")
    # self._threshold: set once, in __init__, from the configuration
    inits = [n for n in cls.body if isinstance(n, ast.FunctionDef) and n.name == "__init__"]
    sets = [n for n in ast.walk(cls) if isinstance(n, ast.Attribute) and isinstance(n.ctx, (ast.Store, ast.Del))
            and n.attr == "_threshold"]
    if len(inits) != 1 or len(sets) != 1 or not any(
            same(st, 'self._threshold = self.cfg["cross_checking_threshold"]') for st in inits[0].body):
        fail(f"{path}:{cls.lineno}", 'self._threshold is not set exactly once, as self._threshold = '
                                     'self.cfg["cross_checking_threshold"] in __init__')
    for n in ast.walk(tree):
        if isinstance(n, ast.Call) and isinstance(n.func, ast.Name) and n.func.id == "setattr":
            fail(f"{path}:{n.lineno}", "setattr in the module")
    stmts = body_of(fn)
    loops = [i for i, s in enumerate(stmts) if isinstance(s, ast.For)]
    if len(loops) != 1:
        fail(f"{path}:{fn.lineno}", f"{len(loops)} loops at the top level of disparity_checking")
    k = loops[0]
    pre, loop, post = stmts[:k], stmts[k], stmts[k + 1:]
    lines = []
    if len(pre) != len(PRELUDE):
        fail(f"{path}:{fn.lineno}", f"the prelude has {len(pre)} statements, {len(PRELUDE)} expected")
    for s, (py, coq) in zip(pre, PRELUDE):
        if not same(s, py):
            fail(f"{path}:{s.lineno}", f"prelude statement not supported: {ast.unparse(s)} (expected: {py})")
        lines.append(coq)
    if not (isinstance(loop.target, ast.Name) and loop.target.id == "row" and not loop.orelse
            and same_expr(loop.iter, "range(0, nb_row)")):
        fail(f"{path}:{loop.lineno}", "the loop is not `for row in range(0, nb_row):`")
    for n in ast.walk(loop):
        if isinstance(n, ast.Name) and isinstance(n.ctx, ast.Store) and n.id == "row" and n is not loop.target:
            fail(f"{path}:{n.lineno}", "the loop body assigns row")
        if isinstance(n, (ast.For, ast.If, ast.Return)) and n is not loop:
            fail(f"{path}:{n.lineno}", f"{type(n).__name__} inside the row loop")
    tr = Tr(path)
    for nm, ty in (("nb_col", "I"), ("nb_row", "I"), ("disparity_range", "IV")):
        tr.env[nm] = ty
        tr.frozen.add(nm)
    for s in loop.body:
        tr.check_no_whole_array(s)
    body = tr.block(list(loop.body), "Some (mask_row, conf_row)")
    if "v_nb_row" in body:
        fail(f"{path}:{loop.lineno}", "the loop body reads nb_row")
    # the locals of the loop must not be read after it
    body_locals = {n.id for s in loop.body for n in ast.walk(s) if isinstance(n, ast.Name) and isinstance(n.ctx, ast.Store)}
    for s in post:
        for n in ast.walk(s):
            if isinstance(n, ast.Name) and (n.id in body_locals or n.id == "row"):
                fail(f"{path}:{n.lineno}", f"the epilogue reads {n.id}, a local of the row loop")
    if len(post) != len(EPILOGUE):
        fail(f"{path}:{fn.lineno}", f"the epilogue has {len(post)} statements, {len(EPILOGUE)} expected")
    elines = []
    for s, (py, coq) in zip(post, EPILOGUE):
        if not same(s, py):
            fail(f"{path}:{s.lineno}", f"epilogue statement not supported: {ast.unparse(s).splitlines()[0]} (expected: {py})")
        elines.append(coq)
    text = ("(* CrossCheckingAccurate.disparity_checking: the body of `for row in range(0, nb_row)` on one row.\n"
            "   mask_row = dataset_left[\"validity_mask\"].data[row, :] (uint16), dl_row / dr_row = the rows of the left / right\n"
            "   disparity maps, conf_row = conf_measure[row, :] *)\n"
            "Definition g_row (p_threshold : xf) (v_nb_col : Z) (v_disparity_range : ivec)\n"
            "    (mask_row : ivec) (dl_row dr_row : vec) (conf_row : vec) : option (ivec * vec) :=\n"
            + indent(body) + ".\n\n")
    text += ("(* CrossCheckingAccurate.disparity_checking: prelude, the row loop, epilogue *)\n"
             "Definition g_disparity_checking (h_allocate_confidence_map : list (list xf) -> xds -> xds)\n"
             "    (h_mask_border : xds -> list (list Z)) (p_threshold : xf) (v_dataset_left v_dataset_right : xds) : option xds :=\n"
             + indent("\n".join(lines)) + "\n"
             "  match rows_loop v_nb_row (g_row p_threshold v_nb_col v_disparity_range)\n"
             "          (x_mask v_dataset_left) (x_disp v_dataset_left) (x_disp v_dataset_right) v_conf_measure with\n"
             "  | None => None\n"
             "  | Some (mask_rows, v_conf_measure) =>\n"
             "  let v_dataset_left := x_set_mask v_dataset_left mask_rows in\n"
             + indent("\n".join(elines)) + "\n  end.\n")
    return text, [(path, f"lines {fn.lineno}-{fn.end_lineno} (CrossCheckingAccurate.disparity_checking)",
                   sha1_of(segment(src, fn)))]


HEADER = """From Coq Require Import ZArith QArith List Bool.
From Pandora Require Import Lib.NpVec Lib.NpRow Model.XCheckGen.
From Pandora Require Gen.ValConst.
Import ListNotations.
Open Scope Z_scope.

"""


def translate():
    h, s1 = translate_helpers()
    m, s2 = translate_method()
    path, changed = emit("XCheckKernel", HEADER + h + m, s1 + s2)
    print(f"gen_xcheck_kernel: {path} {'rewritten' if changed else 'unchanged'} "
          + " ".join(f"{s[1].split('(')[1][:-1].split('.')[-1]}={s[2][:8]}" for s in s1 + s2))


def main():
    try:
        translate()
    except BaseException as exc:
        # fail closed: no stale kernel may stay behind for Proofs/XCheckGenP.v to be checked against
        msg = f"{type(exc).__name__}: {exc}".replace("*)", "* )").replace("(*", "( *")
        emit("XCheckKernel", f"(* TRANSLATION FAILED, nothing generated:\n   {msg}\n*)\n", [])
        raise


if __name__ == "__main__":
    try:
        main()
    except Exception as exc:  # fail closed, one line for the caller
        print(f"TRANSLATION-ERROR gen_xcheck_kernel: {type(exc).__name__}: {exc}")
        sys.exit(3)
