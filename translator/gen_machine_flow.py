"""T-gen: coq/Gen/MachineFlow.v -- the CONTROL FLOW of the sequencing layer, as data
(datatype, interpreter and well-formedness: coq/Lib/MachineFlow.v).  Python `ast` only, fail closed.

    pandora/state_machine.py  PandoraMachine.check_conf          -> fl_check_conf      (every statement)
                              PandoraMachine.run                 -> fl_machine_run     (every statement)
                              PandoraMachine.run_exit            -> fl_run_exit        (every statement)
                              PandoraMachine.is_not_last_scale   -> fl_cond            (every statement)
                              PandoraMachine.run_prepare         -> fl_run_prepare     (PROJECTION, see below)
    pandora/__init__.py       run                                -> fl_pandora_run     (every statement)

What is emitted is a TRANSLITERATION, statement by statement, in source order (whether it is the control flow
the Coq model implements is decided in Coq by check_flow_wf / run_flow_wf, re-proved by vm_compute at every run):

    self.left_img = <p> / self.right_img = <p>          SSetLeft / SSetRight  (p: the 2nd / 3rd parameter, by POSITION)
    self.pipeline_cfg = {"pipeline": {}}                SResetCfg
    self.margins = GlobalMargins()                      SResetMargins
    self.right_disp_map = None                          SSetRdmNone
    self.right_disp_map = cfg["pipeline"][L[0]]["validation_method"]       SSetRdmCfg   (L: see BAnyStep)
    self.num_scales = z / self.current_scale = z        SSetScales z / SSetScale z
    a, b = read_multiscale_params(cfg)                  SReadMultiscale  (a is what run_prepare receives as num_scales)
    self.add_transitions(self._transitions_X)           SAddTransitions TX        (X = check | run)
    self.remove_transitions(self._transitions_X)        SRemoveTransitions TX
    self.set_state("<s>")                               SSetState <s>
    if c: A [else: B]                                   SIf c A B
    for x in cfg["pipeline"] | list(..) | ...keys() | sorted(..) | reversed(..): A      SForSteps order A
    for _ in range(z): A                                SForScales z A
    try: A except (E1, .., En) [as e]: [logging...;] raise [E(..)]      STry A {E1..En} HReraise | HRaise E
    self.trigger(N, a, b)                               STrigger prefix selector args
         N = (prefix + x) | f"prefix{x}" | x, possibly .split(sep)[i]; a, b = cfg["pipeline"], x | cfg, x
    self.check_conf(cfg, p, q, True|False)              SCall (FCheckConf p q second)
    m.run_prepare(cfg, img_left, img_right, scale_factor, num_scales)   SCall FRunPrepare  (argument wiring checked
                                                        against the parameter NAMES of run_prepare)
    m.run(x, cfg) / m.run_exit()                        SCall FRun / SCall FRunExit
    break / return True|False / return m.left_disparity, m.right_disparity
    docstrings, `pass`, logging.<f>(...) expression statements                       nothing
    n = <pure expression over parameters / loop variable>, n assigned exactly once  nothing (n is replaced by its
                                                        definition where it is used)
  conditions: not / and / or, self.right_disp_map, the 4th parameter of check_conf, len(x.split(".")) != 1,
    m.state == "<s>", z == z', z > z', <param> is None, L with L = [s for s in cfg["pipeline"] if s.split(".")[0] == "<kind>"]
  integers: literals, the parameter num_scales, m.num_scales, self.current_scale, a - b.

run_prepare is PROJECTED on the attributes num_scales, current_scale, right_disp_map and on the calls of machine
methods: an assignment to other attributes / local names whose value calls no method of `self` is skipped; an `if`
whose two projected branches are empty is dropped; a loop / with / try block that contains neither a tracked
assignment nor a method call of `self` nor a return is skipped; `return` / `raise` anywhere is refused.

Anything else -- an unknown statement, expression, exception class, a second assignment to a name that is used,
setattr / __dict__ / vars / global / nonlocal / nested functions -- is a TranslationError naming file:line."""
import ast
import os
import sys

from common import emit, fail, sha1_of, REPO

KINDS = {
    "matching_cost": "MC", "aggregation": "Agg", "semantic_segmentation": "Seg", "optimization": "Opt",
    "disparity": "Dsp", "filter": "Flt", "refinement": "Ref", "validation": "Val", "multiscale": "Msc",
    "cost_volume_confidence": "Cvc",
}
STATES = {"begin": "Begin", "cost_volume": "CostVolume", "disp_map": "DispMap"}
TABLES = {"_transitions_check": "TCheck", "_transitions_run": "TRun"}
EXNS = {"MachineError": "machine", "KeyError": "key", "AttributeError": "attribute"}
EXN_CTOR = {"MachineError": "EMachineError", "KeyError": "EKeyError", "AttributeError": "EAttributeError"}
CATCH_ALL = {"Exception", "BaseException"}
TRACKED_PREPARE = {"num_scales", "current_scale", "right_disp_map"}
FORBIDDEN_NAMES = {"setattr", "delattr", "vars", "exec", "eval", "globals", "locals"}


def zlit(n):
    return f"({n})%Z"


def slit(s):
    if '"' in s or "\\" in s or "\n" in s:
        raise ValueError(s)
    return f'"{s}"'


def lst(items):
    return "[" + "; ".join(items) + "]"


def const(node, typ=None):
    if isinstance(node, ast.Constant) and (typ is None or (isinstance(node.value, typ) and not (typ is int and isinstance(node.value, bool)))):
        return node.value
    return None


def int_const(node):
    """integer literal, possibly signed -> int | None"""
    if isinstance(node, ast.UnaryOp) and isinstance(node.op, ast.USub):
        v = const(node.operand, int)
        return None if v is None else -v
    return const(node, int)


class Tr:
    """translation of one function"""

    def __init__(self, path, fdef, machine, roles, tracked=None, prepare_params=None):
        self.path = path
        self.fdef = fdef
        self.machine = machine              # name of the machine object in this function (self / 1st parameter)
        self.roles = roles                  # role -> parameter name: cfg, left, right, second, step, scales, factor
        self.tracked = tracked              # None: every statement is translated; a set: projection
        self.prepare_params = prepare_params
        self.stepvar = roles.get("step")    # the name bound to the current step name
        self.scales_local = None            # local bound to element 0 of read_multiscale_params(cfg)
        self.factor_local = None
        self.params = [a.arg for a in fdef.args.posonlyargs + fdef.args.args + fdef.args.kwonlyargs]
        if fdef.args.vararg or fdef.args.kwarg:
            self.err(fdef, "*args / **kwargs")
        self.used_locals = set()
        # every binding of a plain name: name -> [(stmt, value | None)]
        self.bind = {}
        for node in ast.walk(fdef):
            if isinstance(node, ast.Assign):
                for t in node.targets:
                    self._bind(t, node, node.value)
            elif isinstance(node, (ast.AugAssign, ast.AnnAssign)):
                self._bind(node.target, node, None)
            elif isinstance(node, (ast.For, ast.AsyncFor)):
                self._bind(node.target, node, None)
            elif isinstance(node, ast.comprehension):
                pass  # comprehension variables are local to the comprehension
            elif isinstance(node, (ast.With, ast.AsyncWith)):
                for it in node.items:
                    if it.optional_vars is not None:
                        self._bind(it.optional_vars, node, None)
            elif isinstance(node, ast.NamedExpr):
                self._bind(node.target, node, None)
            elif isinstance(node, ast.ExceptHandler):
                if node.name:
                    self.bind.setdefault(node.name, []).append((node, None))
            elif isinstance(node, (ast.FunctionDef, ast.AsyncFunctionDef, ast.Lambda, ast.ClassDef, ast.Global,
                                   ast.Nonlocal, ast.Yield, ast.YieldFrom, ast.Await, ast.Delete)) and node is not fdef:
                self.err(node, f"{type(node).__name__} inside the function")
            elif isinstance(node, ast.Name) and node.id in FORBIDDEN_NAMES:
                self.err(node, f"use of {node.id}")
            elif isinstance(node, ast.Attribute) and node.attr in ("__dict__", "__setattr__", "__class__"):
                self.err(node, f"use of {node.attr}")
        for p in self.params:
            if p in self.bind:
                self.err(self.bind[p][0][0], f"parameter {p} is assigned")

    def _bind(self, t, stmt, value):
        if isinstance(t, ast.Name):
            self.bind.setdefault(t.id, []).append((stmt, value))
        elif isinstance(t, (ast.Tuple, ast.List)):
            for e in t.elts:
                self._bind(e, stmt, None)
        elif isinstance(t, ast.Starred):
            self._bind(t.value, stmt, None)

    def err(self, node, msg):
        fail(f"{self.path}:{getattr(node, 'lineno', '?')}", f"{self.fdef.name}: {msg}")

    # ------------------------------------------------------------------ names
    def is_machine(self, e):
        return isinstance(e, ast.Name) and e.id == self.machine

    def mattr(self, e):
        """<machine>.<attr> -> attr"""
        if isinstance(e, ast.Attribute) and self.is_machine(e.value):
            return e.attr
        return None

    def is_role(self, e, role):
        return isinstance(e, ast.Name) and role in self.roles and e.id == self.roles[role]

    def resolve(self, e):
        """a local name assigned exactly once by a plain `n = <expr>` is replaced by <expr>"""
        seen = 0
        while isinstance(e, ast.Name) and e.id not in self.params and e.id != self.stepvar:
            b = self.bind.get(e.id)
            if b is None:
                return e
            if len(b) != 1 or b[0][1] is None or not isinstance(b[0][0], ast.Assign) \
                    or len(b[0][0].targets) != 1 or not isinstance(b[0][0].targets[0], ast.Name):
                self.err(e, f"name {e.id} is not bound by exactly one plain assignment")
            self.used_locals.add(e.id)
            e = b[0][1]
            seen += 1
            if seen > 20:
                self.err(e, "cyclic local definitions")
        return e

    def is_step(self, e):
        e = self.resolve(e)
        return isinstance(e, ast.Name) and self.stepvar is not None and e.id == self.stepvar

    def is_cfg(self, e):
        return self.is_role(self.resolve(e), "cfg")

    def is_pipeline(self, e):
        """cfg["pipeline"]"""
        e = self.resolve(e)
        return isinstance(e, ast.Subscript) and self.is_cfg(e.value) and const(e.slice, str) == "pipeline"

    # ------------------------------------------------------------------ expressions
    def split_of(self, e):
        """<x>.split(<sep>) -> (x, sep) | None"""
        if isinstance(e, ast.Call) and isinstance(e.func, ast.Attribute) and e.func.attr == "split" \
                and len(e.args) == 1 and not e.keywords and const(e.args[0], str) is not None:
            return e.func.value, e.args[0].value
        return None

    def anystep_kind(self, e):
        """[s for s in cfg["pipeline"] if s.split(".")[0] == "<kind>"] -> Coq kind | None"""
        e = self.resolve(e)
        if not (isinstance(e, ast.ListComp) and len(e.generators) == 1):
            return None
        g = e.generators[0]
        if g.is_async or not isinstance(g.target, ast.Name) or len(g.ifs) != 1 or not self.is_pipeline(g.iter):
            return None
        v = g.target.id
        if not (isinstance(e.elt, ast.Name) and e.elt.id == v):
            return None
        t = g.ifs[0]
        if not (isinstance(t, ast.Compare) and len(t.ops) == 1 and isinstance(t.ops[0], ast.Eq)):
            return None
        lhs, rhs = t.left, t.comparators[0]
        if const(lhs, str) is not None:
            lhs, rhs = rhs, lhs
        k = const(rhs, str)
        if k not in KINDS:
            return None
        if not isinstance(lhs, ast.Subscript) or int_const(lhs.slice) != 0:
            return None
        sp = self.split_of(lhs.value)
        if sp is None or sp[1] != "." or not (isinstance(sp[0], ast.Name) and sp[0].id == v):
            return None
        return KINDS[k]

    def zexp(self, e):
        e0 = e
        if isinstance(e, ast.Name) and self.scales_local is not None and e.id == self.scales_local:
            return "ZParamScales"
        e = self.resolve(e)
        v = int_const(e)
        if v is not None:
            return f"(ZConst {zlit(v)})"
        if isinstance(e, ast.Name):
            if "scales" in self.roles and e.id == self.roles["scales"]:
                return "ZParamScales"
            if self.scales_local is not None and e.id == self.scales_local:
                return "ZParamScales"
        a = self.mattr(e)
        if a == "num_scales":
            return "ZSelfScales"
        if a == "current_scale":
            return "ZSelfScale"
        if isinstance(e, ast.BinOp) and isinstance(e.op, ast.Sub):
            return f"(ZSub {self.zexp(e.left)} {self.zexp(e.right)})"
        self.err(e0, f"integer expression not understood: {ast.unparse(e)}")

    def bexp(self, e):
        e0 = e
        # a name standing for a list comprehension over the steps
        k = self.anystep_kind(e)
        if k is not None:
            return f"(BAnyStep {k})"
        e = self.resolve(e)
        if isinstance(e, ast.UnaryOp) and isinstance(e.op, ast.Not):
            return f"(BNot {self.bexp(e.operand)})"
        if isinstance(e, ast.BoolOp):
            op = "BAnd" if isinstance(e.op, ast.And) else "BOr"
            out = self.bexp(e.values[-1])
            for v in reversed(e.values[:-1]):
                out = f"({op} {self.bexp(v)} {out})"
            return out
        if self.mattr(e) == "right_disp_map":
            return "BRdm"
        if self.is_role(e, "second"):
            return "BSecond"
        if isinstance(e, ast.Compare) and len(e.ops) == 1:
            op, lhs, rhs = e.ops[0], e.left, e.comparators[0]
            # len(x.split(".")) != 1
            if isinstance(lhs, ast.Call) and isinstance(lhs.func, ast.Name) and lhs.func.id == "len" \
                    and len(lhs.args) == 1 and not lhs.keywords:
                sp = self.split_of(self.resolve(lhs.args[0]))
                if sp is not None and sp[1] == "." and self.is_step(sp[0]) and int_const(rhs) == 1:
                    if isinstance(op, ast.NotEq) or isinstance(op, ast.Gt):
                        return "BDotted"
                    if isinstance(op, ast.Eq):
                        return "(BNot BDotted)"
            # "." in x
            if isinstance(op, ast.In) and const(lhs, str) == "." and self.is_step(rhs):
                return "BDotted"
            # m.state == "<s>"
            if isinstance(op, ast.Eq) and self.mattr(lhs) == "state" and const(rhs, str) in STATES:
                return f"(BStateIs {STATES[rhs.value]})"
            # <param> is None
            if isinstance(op, ast.Is) and const(rhs) is None and isinstance(rhs, ast.Constant) and isinstance(lhs, ast.Name):
                for role in ("scales", "factor"):
                    if self.is_role(lhs, role):
                        return f"(BParamNone {slit(lhs.id)})"
            if isinstance(op, ast.Eq):
                return f"(BZEq {self.zexp(lhs)} {self.zexp(rhs)})"
            if isinstance(op, ast.Gt):
                return f"(BZGt {self.zexp(lhs)} {self.zexp(rhs)})"
        self.err(e0, f"condition not understood: {ast.unparse(e)}")

    def trigger_name(self, e):
        """the first argument of trigger -> (prefix, selector)"""
        e0 = e
        e = self.resolve(e)

        def prefixed(x):
            """x = <step> | "p" + <step> | f"p{<step>}" -> prefix | None"""
            x = self.resolve(x)
            if self.is_step(x):
                return ""
            if isinstance(x, ast.BinOp) and isinstance(x.op, ast.Add) and const(x.left, str) is not None \
                    and self.is_step(x.right):
                return x.left.value
            if isinstance(x, ast.JoinedStr) and len(x.values) == 2 and const(x.values[0], str) is not None \
                    and isinstance(x.values[1], ast.FormattedValue) and x.values[1].conversion == -1 \
                    and x.values[1].format_spec is None and self.is_step(x.values[1].value):
                return x.values[0].value
            return None

        p = prefixed(e)
        if p is not None:
            return p, "SelWhole"
        if isinstance(e, ast.Subscript):
            i = int_const(e.slice)
            sp = self.split_of(self.resolve(e.value))
            if i is not None and sp is not None:
                p = prefixed(sp[0])
                if p is not None:
                    if sp[1] in p and i != 0:
                        self.err(e0, "separator inside the prefix")
                    return p, f"(SelIdx {slit(sp[1])} {zlit(i)})"
        # "p" + <step>.split(sep)[0]
        if isinstance(e, ast.BinOp) and isinstance(e.op, ast.Add) and const(e.left, str) is not None:
            r = self.resolve(e.right)
            if isinstance(r, ast.Subscript) and int_const(r.slice) == 0:
                sp = self.split_of(self.resolve(r.value))
                if sp is not None and self.is_step(sp[0]) and sp[1] not in e.left.value:
                    return e.left.value, f"(SelIdx {slit(sp[1])} {zlit(0)})"
        self.err(e0, f"trigger name not understood: {ast.unparse(e)}")

    # ------------------------------------------------------------------ statements
    def call_args(self, call, names):
        """positional + keyword arguments of a call -> dict parameter name -> expression"""
        if len(call.args) > len(names):
            self.err(call, "too many arguments")
        out = {}
        for n, a in zip(names, call.args):
            if isinstance(a, ast.Starred):
                self.err(call, "starred argument")
            out[n] = a
        for kw in call.keywords:
            if kw.arg is None or kw.arg not in names or kw.arg in out:
                self.err(call, f"keyword argument {kw.arg}")
            out[kw.arg] = kw.value
        return out

    def img_param(self, e):
        e = self.resolve(e)
        if self.is_role(e, "left"):
            return "PLeft"
        if self.is_role(e, "right"):
            return "PRight"
        self.err(e, f"not one of the two image parameters: {ast.unparse(e)}")

    def machine_call(self, call):
        """a call <machine>.<method>(...) -> list of statements"""
        meth = call.func.attr
        if meth in ("add_transitions", "remove_transitions"):
            if len(call.args) != 1 or call.keywords or self.mattr(call.args[0]) not in TABLES:
                self.err(call, f"{meth}: argument is not self._transitions_check / self._transitions_run")
            ctor = "SAddTransitions" if meth == "add_transitions" else "SRemoveTransitions"
            return [f"{ctor} {TABLES[self.mattr(call.args[0])]}"]
        if meth == "set_state":
            if len(call.args) != 1 or call.keywords or const(call.args[0], str) not in STATES:
                self.err(call, "set_state: argument is not a state name")
            return [f"SSetState {STATES[call.args[0].value]}"]
        if meth == "trigger":
            if len(call.args) != 3 or call.keywords:
                self.err(call, "trigger: expected (name, cfg, step)")
            if self.stepvar is None:
                self.err(call, "trigger outside a loop over the steps")
            prefix, sel = self.trigger_name(call.args[0])
            if not self.is_step(call.args[2]):
                self.err(call, "trigger: the third argument is not the step name")
            if self.is_pipeline(call.args[1]):
                args = "ArgsPipelineStep"
            elif self.is_cfg(call.args[1]):
                args = "ArgsCfgStep"
            else:
                self.err(call, "trigger: the second argument is neither cfg nor cfg[\"pipeline\"]")
            return [f"STrigger {slit(prefix)} {sel} {args}"]
        if meth == "check_conf" and self.fdef.name == "check_conf":
            a = self.call_args(call, self.params[1:])
            r = self.roles
            if set(a) - {r["cfg"], r["left"], r["right"], r["second"]} or not {r["cfg"], r["left"], r["right"]} <= set(a):
                self.err(call, "check_conf: arguments")
            if not self.is_cfg(a[r["cfg"]]):
                self.err(call, "check_conf: the configuration argument is not the parameter")
            second = False
            if r["second"] in a:
                second = const(a[r["second"]], bool)
                if second is None:
                    self.err(call, "check_conf: the last argument is not True / False")
            return [f"SCall (FCheckConf {self.img_param(a[r['left']])} {self.img_param(a[r['right']])} "
                    f"{'true' if second else 'false'})"]
        if meth == "run_prepare" and self.prepare_params is not None:
            a = self.call_args(call, self.prepare_params)
            want = {"cfg": "cfg", "left_img": "left", "right_img": "right"}
            for pname, role in want.items():
                if pname not in a or not self.is_role(self.resolve(a[pname]), role):
                    self.err(call, f"run_prepare: parameter {pname} does not receive the {role} parameter of run")
            if "num_scales" not in a or not (isinstance(a["num_scales"], ast.Name) and a["num_scales"].id == self.scales_local):
                self.err(call, "run_prepare: num_scales does not receive the first value of read_multiscale_params")
            if "scale_factor" not in a or not (isinstance(a["scale_factor"], ast.Name) and a["scale_factor"].id == self.factor_local):
                self.err(call, "run_prepare: scale_factor does not receive the second value of read_multiscale_params")
            if set(a) != {"cfg", "left_img", "right_img", "num_scales", "scale_factor"}:
                self.err(call, "run_prepare: arguments")
            return ["SCall FRunPrepare"]
        if meth == "run" and self.prepare_params is not None:
            if len(call.args) != 2 or call.keywords or not self.is_step(call.args[0]) or not self.is_cfg(call.args[1]):
                self.err(call, "run: expected (<loop variable>, cfg)")
            return ["SCall FRun"]
        if meth == "run_exit" and self.prepare_params is not None:
            if call.args or call.keywords:
                self.err(call, "run_exit: arguments")
            return ["SCall FRunExit"]
        self.err(call, f"call of machine method {meth} not understood")

    def has_machine_effect(self, node):
        """does the subtree assign a tracked attribute, call a machine method, return or raise"""
        for n in ast.walk(node):
            if isinstance(n, (ast.Return, ast.Raise, ast.Break, ast.Continue)):
                return True
            if isinstance(n, ast.Call) and isinstance(n.func, ast.Attribute) and self.is_machine(n.func.value):
                return True
            if isinstance(n, (ast.Assign, ast.AugAssign, ast.AnnAssign)):
                targets = n.targets if isinstance(n, ast.Assign) else [n.target]
                for t in targets:
                    for x in ast.walk(t):
                        a = self.mattr(x)
                        if a is not None and (self.tracked is None or a in self.tracked):
                            return True
        return False

    def pure_value(self, e):
        """no call of a machine method inside the expression"""
        for n in ast.walk(e):
            if isinstance(n, ast.Call) and isinstance(n.func, ast.Attribute) and self.is_machine(n.func.value):
                return False
        return True

    def iteration(self, it):
        """the iterable of a loop over the steps -> order | None"""
        it = self.resolve(it)

        def base(x):
            x = self.resolve(x)
            if self.is_pipeline(x):
                return True
            if isinstance(x, ast.Call) and not x.keywords:
                if isinstance(x.func, ast.Name) and x.func.id == "list" and len(x.args) == 1:
                    return base(x.args[0])
                if isinstance(x.func, ast.Attribute) and x.func.attr == "keys" and not x.args:
                    return self.is_pipeline(x.func.value)
            return False

        if base(it):
            return "ODict"
        if isinstance(it, ast.Call) and isinstance(it.func, ast.Name) and len(it.args) == 1 and not it.keywords:
            if it.func.id == "sorted" and base(it.args[0]):
                return "OSorted"
            if it.func.id == "reversed" and base(it.args[0]):
                return "OReversed"
        return None

    def block(self, stmts):
        out = []
        for s in stmts:
            out += self.stmt(s)
        return out

    def stmt(self, s):
        # docstrings, pass, logging
        if isinstance(s, ast.Pass):
            return []
        if isinstance(s, ast.Expr):
            if isinstance(s.value, ast.Constant) and isinstance(s.value.value, str):
                return []
            c = s.value
            if isinstance(c, ast.Call) and isinstance(c.func, ast.Attribute):
                if isinstance(c.func.value, ast.Name) and c.func.value.id == "logging" and all(self.pure_value(a) for a in c.args):
                    return []
                if self.is_machine(c.func.value):
                    return self.machine_call(c)
            if self.tracked is not None and self.pure_value(c):
                return []
            self.err(s, f"expression statement not understood: {ast.unparse(s)}")
        if isinstance(s, ast.Assign):
            return self.assign(s)
        if isinstance(s, ast.If):
            if self.tracked is not None and not self.has_machine_effect(s):
                return []
            a, b = self.block(s.body), self.block(s.orelse)
            if self.tracked is not None and not a and not b:
                return []
            return [f"SIf {self.bexp(s.test)} {lst(a)} {lst(b)}"]
        if isinstance(s, ast.For):
            if self.tracked is not None and not self.has_machine_effect(s):
                return []
            if s.orelse or not isinstance(s.target, ast.Name):
                self.err(s, "for loop with else / structured target")
            it = self.resolve(s.iter)
            if isinstance(it, ast.Call) and isinstance(it.func, ast.Name) and it.func.id == "range" \
                    and len(it.args) == 1 and not it.keywords:
                if len(self.bind.get(s.target.id, [])) != 1:
                    self.err(s, "loop variable assigned elsewhere")
                for n in ast.walk(s):
                    if isinstance(n, ast.Name) and n.id == s.target.id and n is not s.target:
                        self.err(s, "the counter of the scale loop is used")
                return [f"SForScales {self.zexp(it.args[0])} {lst(self.block(s.body))}"]
            order = self.iteration(it)
            if order is None:
                self.err(s, f"loop not understood: for {ast.unparse(s.target)} in {ast.unparse(s.iter)}")
            if self.stepvar is not None:
                self.err(s, "nested loops over the steps")
            if len(self.bind.get(s.target.id, [])) != 1:
                self.err(s, "loop variable assigned elsewhere")
            self.stepvar = s.target.id
            body = self.block(s.body)
            self.stepvar = None
            return [f"SForSteps {order} {lst(body)}"]
        if isinstance(s, ast.Try):
            if self.tracked is not None and not self.has_machine_effect(s):
                return []
            if s.orelse or s.finalbody or len(s.handlers) != 1:
                self.err(s, "try with else / finally / several handlers")
            h = s.handlers[0]
            names = []
            if isinstance(h.type, ast.Tuple):
                names = h.type.elts
            elif h.type is not None:
                names = [h.type]
            else:
                self.err(h, "bare except")
            flags = {"machine": False, "key": False, "attribute": False, "other": False}
            for n in names:
                if not isinstance(n, ast.Name):
                    self.err(h, f"exception class not understood: {ast.unparse(n)}")
                if n.id in CATCH_ALL:
                    flags = {k: True for k in flags}
                elif n.id in EXNS:
                    flags[EXNS[n.id]] = True
                else:
                    self.err(h, f"exception class {n.id} not known to the model")
            hb = [x for x in h.body if self.stmt_is_silent(x)]
            rest = [x for x in h.body if not self.stmt_is_silent(x)]
            del hb
            if len(rest) != 1 or not isinstance(rest[0], ast.Raise) or rest[0] is not h.body[-1]:
                self.err(h, "handler is not [logging;] raise")
            r = rest[0]
            if r.cause is not None and not (isinstance(r.cause, ast.Name) and r.cause.id == h.name) \
                    and not (isinstance(r.cause, ast.Constant) and r.cause.value is None):
                self.err(r, "raise ... from <expr>")
            if r.exc is None or (isinstance(r.exc, ast.Name) and h.name and r.exc.id == h.name):
                handler = "HReraise"
            else:
                cls = r.exc.func if isinstance(r.exc, ast.Call) else r.exc
                if not isinstance(cls, ast.Name) or cls.id not in EXN_CTOR:
                    self.err(r, f"raised class not known to the model: {ast.unparse(r.exc)}")
                handler = f"(HRaise {EXN_CTOR[cls.id]})"
            c = "(mkCatch " + " ".join("true" if flags[k] else "false" for k in ("machine", "key", "attribute", "other")) + ")"
            return [f"STry {lst(self.block(s.body))} {c} {handler}"]
        if isinstance(s, ast.Break):
            if self.tracked is not None:
                self.err(s, "break")
            return ["SBreak"]
        if isinstance(s, ast.Return):
            if self.tracked is not None:
                self.err(s, "return inside a projected function")
            if s.value is None or (isinstance(s.value, ast.Constant) and s.value.value is None):
                self.err(s, "early return")
            b = const(s.value, bool)
            if b is not None:
                return [f"SReturnBool {'true' if b else 'false'}"]
            if isinstance(s.value, ast.Tuple) and len(s.value.elts) == 2:
                sides = {"left_disparity": "SL", "right_disparity": "SR"}
                a = [sides.get(self.mattr(x)) for x in s.value.elts]
                if None not in a:
                    return [f"SReturnProducts {a[0]} {a[1]}"]
            self.err(s, f"return not understood: {ast.unparse(s)}")
        if self.tracked is not None and isinstance(s, (ast.With, ast.While)) and not self.has_machine_effect(s):
            return []
        self.err(s, f"statement not understood: {type(s).__name__}")

    def stmt_is_silent(self, s):
        try:
            return not isinstance(s, ast.Raise) and self.stmt(s) == []
        except Exception:  # pylint: disable=broad-except
            return False

    def assign(self, s):
        if len(s.targets) != 1:
            self.err(s, "chained assignment")
        t = s.targets[0]
        # num_scales, scale_factor = read_multiscale_params(cfg)
        if isinstance(t, ast.Tuple) and isinstance(s.value, ast.Call) and isinstance(s.value.func, ast.Name) \
                and s.value.func.id == "read_multiscale_params":
            if len(t.elts) != 2 or not all(isinstance(x, ast.Name) for x in t.elts) or len(s.value.args) != 1 \
                    or s.value.keywords or not self.is_cfg(s.value.args[0]):
                self.err(s, "read_multiscale_params: expected a, b = read_multiscale_params(cfg)")
            for x in t.elts:
                if len(self.bind.get(x.id, [])) != 1:
                    self.err(s, f"{x.id} assigned elsewhere")
            self.scales_local, self.factor_local = t.elts[0].id, t.elts[1].id
            return ["SReadMultiscale"]
        attr = self.mattr(t)
        if attr is not None and (self.tracked is None or attr in self.tracked):
            v = s.value
            if attr == "left_img":
                return [f"SSetLeft {self.img_param(v)}"]
            if attr == "right_img":
                return [f"SSetRight {self.img_param(v)}"]
            if attr == "pipeline_cfg":
                if isinstance(v, ast.Dict) and len(v.keys) == 1 and const(v.keys[0], str) == "pipeline" \
                        and isinstance(v.values[0], ast.Dict) and not v.values[0].keys:
                    return ["SResetCfg"]
            if attr == "margins":
                if isinstance(v, ast.Call) and isinstance(v.func, ast.Name) and v.func.id == "GlobalMargins" \
                        and not v.args and not v.keywords:
                    return ["SResetMargins"]
            if attr == "right_disp_map":
                if isinstance(v, ast.Constant) and v.value is None:
                    return ["SSetRdmNone"]
                # cfg["pipeline"][L[0]]["validation_method"]
                if isinstance(v, ast.Subscript) and const(v.slice, str) == "validation_method" \
                        and isinstance(v.value, ast.Subscript) and self.is_pipeline(v.value.value):
                    key = v.value.slice
                    if isinstance(key, ast.Subscript) and int_const(key.slice) == 0 and self.anystep_kind(key.value) == "Val":
                        return ["SSetRdmCfg"]
            if attr == "num_scales":
                return [f"SSetScales {self.zexp(v)}"]
            if attr == "current_scale":
                return [f"SSetScale {self.zexp(v)}"]
            self.err(s, f"assignment to self.{attr} not understood: {ast.unparse(s)}")
        # a local name: its definition is used where the name is used
        if isinstance(t, ast.Name):
            if not self.pure_value(s.value):
                self.err(s, "a machine method is called in the value of a local name")
            return []
        if self.tracked is not None:
            # projection: other attributes / tuples of them
            for x in ast.walk(t):
                a = self.mattr(x)
                if a is not None and a in self.tracked:
                    self.err(s, f"structured assignment to self.{a}")
            if not self.pure_value(s.value):
                self.err(s, "a machine method is called in the value of a skipped assignment")
            return []
        self.err(s, f"assignment not understood: {ast.unparse(s)}")


def find_function(tree, cls, name, path):
    body = tree.body
    if cls is not None:
        cs = [n for n in body if isinstance(n, ast.ClassDef) and n.name == cls]
        if len(cs) != 1:
            fail(path, f"class {cls} not found exactly once")
        body = cs[0].body
    fs = [n for n in body if isinstance(n, ast.FunctionDef) and n.name == name]
    if len(fs) != 1:
        fail(path, f"function {name} not found exactly once")
    f = fs[0]
    for d in f.decorator_list:
        fail(f"{path}:{f.lineno}", f"{name} is decorated")
    return f


def params_of(f):
    return [a.arg for a in f.args.posonlyargs + f.args.args]


def default_of(f, pname):
    names = params_of(f)
    defaults = f.args.defaults
    i = names.index(pname) - (len(names) - len(defaults))
    return defaults[i] if i >= 0 else None


def main():
    sm_path = os.path.join(REPO, "pandora", "state_machine.py")
    init_path = os.path.join(REPO, "pandora", "__init__.py")
    with open(sm_path) as f:
        sm_src = f.read()
    with open(init_path) as f:
        init_src = f.read()
    sm, init = ast.parse(sm_src), ast.parse(init_src)
    sources, defs = [], {}

    def seg(src, node):
        return "\n".join(src.splitlines()[node.lineno - 1:node.end_lineno])

    def record(path, src, node, label):
        sources.append((path, f"{label} lines {node.lineno}-{node.end_lineno}", sha1_of(seg(src, node))))

    # ---- PandoraMachine.check_conf(self, cfg, img_left, img_right, right_left_img_check=False)
    f = find_function(sm, "PandoraMachine", "check_conf", sm_path)
    ps = params_of(f)
    if len(ps) != 5 or f.args.kwonlyargs:
        fail(f"{sm_path}:{f.lineno}", f"check_conf: expected 5 parameters, got {ps}")
    d = default_of(f, ps[4])
    if d is None or const(d, bool) is not False:
        fail(f"{sm_path}:{f.lineno}", "check_conf: the default of the last parameter is not False")
    if any(default_of(f, p) is not None for p in ps[1:4]):
        fail(f"{sm_path}:{f.lineno}", "check_conf: unexpected default values")
    t = Tr(sm_path, f, ps[0], {"cfg": ps[1], "left": ps[2], "right": ps[3], "second": ps[4]})
    defs["check_conf"] = t.block(f.body)
    record(sm_path, sm_src, f, "PandoraMachine.check_conf")

    # ---- PandoraMachine.run(self, input_step, cfg)
    f = find_function(sm, "PandoraMachine", "run", sm_path)
    ps = params_of(f)
    if len(ps) != 3 or f.args.kwonlyargs or f.args.defaults:
        fail(f"{sm_path}:{f.lineno}", f"run: expected (self, input_step, cfg), got {ps}")
    t = Tr(sm_path, f, ps[0], {"step": ps[1], "cfg": ps[2]})
    defs["machine_run"] = t.block(f.body)
    record(sm_path, sm_src, f, "PandoraMachine.run")

    # ---- PandoraMachine.run_prepare(self, cfg, left_img, right_img, scale_factor=None, num_scales=None): projection
    f = find_function(sm, "PandoraMachine", "run_prepare", sm_path)
    ps = params_of(f)
    if f.args.kwonlyargs or not {"cfg", "left_img", "right_img", "scale_factor", "num_scales"} <= set(ps[1:]) or len(ps) != 6:
        fail(f"{sm_path}:{f.lineno}", f"run_prepare: parameters {ps}")
    prepare_params = ps[1:]
    t = Tr(sm_path, f, ps[0], {"cfg": "cfg", "scales": "num_scales", "factor": "scale_factor"}, tracked=TRACKED_PREPARE)
    defs["run_prepare"] = t.block(f.body)
    record(sm_path, sm_src, f, "PandoraMachine.run_prepare")

    # ---- PandoraMachine.run_exit(self)
    f = find_function(sm, "PandoraMachine", "run_exit", sm_path)
    ps = params_of(f)
    if len(ps) != 1 or f.args.kwonlyargs:
        fail(f"{sm_path}:{f.lineno}", f"run_exit: parameters {ps}")
    t = Tr(sm_path, f, ps[0], {})
    defs["run_exit"] = t.block(f.body)
    record(sm_path, sm_src, f, "PandoraMachine.run_exit")

    # ---- PandoraMachine.is_not_last_scale(self, _, __)
    f = find_function(sm, "PandoraMachine", "is_not_last_scale", sm_path)
    ps = params_of(f)
    if len(ps) != 3 or f.args.kwonlyargs:
        fail(f"{sm_path}:{f.lineno}", f"is_not_last_scale: parameters {ps}")
    t = Tr(sm_path, f, ps[0], {})
    defs["cond"] = t.block(f.body)
    record(sm_path, sm_src, f, "PandoraMachine.is_not_last_scale")

    # ---- pandora.run(pandora_machine, img_left, img_right, cfg)
    f = find_function(init, None, "run", init_path)
    ps = params_of(f)
    if len(ps) != 4 or f.args.kwonlyargs or f.args.defaults:
        fail(f"{init_path}:{f.lineno}", f"run: expected (machine, img_left, img_right, cfg), got {ps}")
    t = Tr(init_path, f, ps[0], {"left": ps[1], "right": ps[2], "cfg": ps[3]}, prepare_params=prepare_params)
    defs["pandora_run"] = t.block(f.body)
    record(init_path, init_src, f, "run")

    body = ("From Coq Require Import ZArith List String.\n"
            "From Pandora Require Import Model.Machine Lib.MachineFlow.\n"
            "Import ListNotations.\nLocal Open Scope string_scope.\n\n")
    for name in ("check_conf", "machine_run", "run_prepare", "run_exit", "cond", "pandora_run"):
        body += f"Definition flow_{name} : list stmt :=\n  {lst(defs[name])}.\n\n"
    body += ("Definition flows : MachineFlow.flows :=\n  mkFlows flow_check_conf flow_machine_run flow_run_prepare "
             "flow_run_exit flow_cond flow_pandora_run.\n")
    path, changed = emit("MachineFlow", body, sources)
    print(f"gen_machine_flow: {path} {'rewritten' if changed else 'unchanged'} "
          + " ".join(f"{k}={len(v)}" for k, v in defs.items()))


if __name__ == "__main__":
    try:
        main()
    except Exception as exc:  # fail closed, one line for the caller
        print(f"TRANSLATION-ERROR gen_machine_flow: {type(exc).__name__}: {exc}")
        sys.exit(3)
