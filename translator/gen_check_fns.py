"""T-gen: coq/Gen/CheckFns.v from the small check functions of pandora/check_configuration.py (Python `ast` of
the file, fail closed):

    check_shape, check_attributes, check_band_names, check_disparities_from_dataset, check_dataset,
    check_datasets, check_image_dimension, check_images, check_disparities_from_input

and, as [check_input_section_custom], the "custom checking" part of check_input_section: the top-level statements
between `checker.validate(cfg)` and the final `return cfg` (which custom check is called with which values of the
completed configuration, in which order); what comes before (update_conf, schema selection, dict.update, json-checker
validation) stays hand-modelled and must not return.

Every function body is translated STATEMENT BY STATEMENT into a Gallina term of type [res unit] (Model/DatasetCheck.v:
[Ok tt] = returned normally, [Raise e] = raised an exception of class e) over the named primitives of
coq/Model/CheckPrims.v (the semantics of the xarray / numpy / rasterio / Python constructs met):

    if t: raise E(...)                  ->  if t then Raise E else <rest>
    if t: A [else: B]                   ->  andthen (if t then <A> else <B | Ok tt>) <rest>
    x = e                               ->  let x := e in <rest>          (do x <- e ;; <rest> when e may raise)
    f(a, k=b)   (f one of the nine)     ->  andthen (f a b) <rest>
    for x in it: A                      ->  andthen (for_each it (fun x => <A>)) <rest>
    raise E(...)                        ->  Raise E

A sub-expression that may raise (dataset[k], coords[k].data, .sel(..), v[k], len(v), a < b on configuration values,
rasterio_open(p), reader.read(k), k in v) is bound first, in Python's evaluation order (`do t_ <- prim ;;`); the right
operand of `and` / `or` is only evaluated when the left one does not decide.  Expressions are typed (dataset, image,
disparity, generic data variable, shapes, name sets, band names, labels, sample vectors, booleans, integers,
configuration values, raster readers); an operation on a type it is not known for is refused.

Anything else (statement, operator, call, attribute, subscript, keyword, decorator, signature, a `return`, a second
definition or a rebinding of one of the nine names / of rasterio_open / np / xr anywhere at module level, a
rasterio_open that is not the plain rasterio.open wrapper of img_tools) is a TranslationError naming file:line.
Python locals and parameters keep their names, so renaming them is harmless.

The per-run obligations are in Proofs/CheckGenP.v / Props/C17.v: each generated function computes what the
hand-written Model/DatasetCheck.v / Model/InputCheck.v computes, for ALL inputs; the C17 theorems are restated on the
generated functions."""
import ast
import os
import sys

from common import emit, fail, sha1_of, REPO

# emission order = dependency order (a call to a function not emitted yet is refused)
FUNCS = ["check_shape", "check_attributes", "check_band_names", "check_disparities_from_dataset", "check_dataset",
         "check_datasets", "check_image_dimension", "check_images", "check_disparities_from_input"]
PARAM_TYPES = {
    "check_shape": ["DS", "STR", "STR"],
    "check_attributes": ["DS", "SETSTR"],
    "check_band_names": ["DS"],
    "check_disparities_from_dataset": ["DISP"],
    "check_dataset": ["DS"],
    "check_datasets": ["DS", "DS"],
    "check_image_dimension": ["RF", "RF"],
    "check_images": ["JV"],
    "check_disparities_from_input": ["JV", "JV"],
    "check_input_section_custom": ["JV"],
}
CUSTOM = "check_input_section_custom"
USES_FS = {"check_images", "check_disparities_from_input", "check_input_section_custom"}   # functions of the section over the file system
COQ_TYPES = {"DS": "xr_dataset", "STR": "string", "SETSTR": "list string", "DISP": "xr_disparity", "RF": "rfile",
             "JV": "pyvalue"}
EXC = {"AttributeError": "EAttribute", "TypeError": "EType", "ValueError": "EValue", "KeyError": "EKey",
       "IndexError": "EIndex"}
LABELS = {"min": "LMin", "max": "LMax"}
PYTYPES = {"str": "TyStr", "list": "TyList"}
RESERVED = set("""check_input_section_custom check_completed_with at as cofix else end exists exists2 fix for forall fun if IF in let match mod return Set Prop SProp
Type then using where with do Some None true false negb andb orb fst snd Z Q nat list option bool string unit tt
res Ok Raise andthen bind for_each filter forallb existsb map nth length fs
exc EAttribute EType EValue EKey EIndex ESchema EIO label LMin LMax LOther shape last2 shape_eqb
xr_dataset xr_disparity xr_image bandname pyvalue dataarray DAImage DADisp DAOther da_shape assoc ds_table
ds_contains ds_iter ds_item ds_item_im ds_item_disparity ds_has_coord_band_im ds_coord_band_im bandname_is_str
py_set set_diff set_nonempty py_str da_has_coord_band_disp da_coord_band_disp labels_issubset da_sel_band_disp
np_isnan np_all np_any np_gt py_is_none py_len py_index py_lt py_subscript py_contains rfile mkRfile rf_width rf_height
rf_bands rf_count rio_read finfo_of abs_fs rasterio_open py_dataset isinstance TyStr TyList im_shape im_cells
jv JInt JFloat JNan JInf JStr JBool JNull JList JDict cell
np xr rasterio""".split()) | set(FUNCS)


def is_const(node, value=None, kind=None):
    if not isinstance(node, ast.Constant):
        return False
    if kind is not None and (not isinstance(node.value, kind) or isinstance(node.value, bool)):
        return False
    return value is None or node.value == value


def is_name(node, name=None):
    return isinstance(node, ast.Name) and (name is None or node.id == name)


def subscript_key(node):
    s = node.slice
    if isinstance(s, ast.Index):  # python < 3.9
        s = s.value
    return s


def coq_string(s, where):
    if any(ord(c) < 32 or ord(c) > 126 for c in s) or '"' in s:
        fail(where, f"string constant not plain printable ASCII: {s!r}")
    return f'"{s}"%string'


class Fn:
    """one function of check_configuration.py"""

    def __init__(self, fname, name, params, sigs):
        self.fname = fname
        self.name = name
        self.params = params
        self.env = dict(zip(params, PARAM_TYPES[name]))
        self.sigs = sigs          # functions already emitted -> parameter names
        self.ntemp = 0
        self.pre = []             # the current list of (temporary, effectful text) bindings

    def where(self, node):
        return f"{self.fname}:{getattr(node, 'lineno', 0)}"

    def refuse(self, node, msg):
        fail(self.where(node), f"{self.name}: {msg}: {ast.unparse(node)}")

    # ------------------------------------------------------------------ effects
    def eff(self, text, ty):
        """bind an expression that may raise to a fresh temporary, return the temporary"""
        self.ntemp += 1
        t = f"t{self.ntemp}_"
        self.pre.append((t, text))
        return t, ty

    def isolated(self, fun):
        """run fun() with its own list of bindings: -> (bindings, result)"""
        saved, self.pre = self.pre, []
        try:
            out = fun()
            return self.pre, out
        finally:
            self.pre = saved

    @staticmethod
    def wrap(pre, text, pad=""):
        """`do t <- e ;;` lines in front of a term of type res"""
        return "".join(f"{pad}do {t} <- {e} ;;\n" for t, e in pre) + pad + text

    def bind_name(self, node, name, ty):
        if name in RESERVED or name.endswith("_") and name[:-1].lstrip("t").isdigit():
            self.refuse(node, f"the name {name} is reserved by the generated text")
        if name in self.params:
            self.refuse(node, f"parameter {name} is re-assigned")
        self.env[name] = ty

    def want(self, node, tv, ty):
        if tv[1] != ty:
            self.refuse(node, f"a value of type {tv[1]} where {ty} is expected")
        return tv[0]

    # ------------------------------------------------------------------ expressions -> (pure text, type)
    def expr(self, e):
        if isinstance(e, ast.Constant):
            if e.value is None:
                return "None", "NONE"
            if isinstance(e.value, str):
                return coq_string(e.value, self.where(e)), "STR"
            if isinstance(e.value, bool) or not isinstance(e.value, int):
                self.refuse(e, "literal is not an integer, a string or None")
            return (f"({e.value})" if e.value < 0 else str(e.value)), "Z"
        if isinstance(e, ast.Name):
            if e.id not in self.env:
                self.refuse(e, f"unknown name {e.id}")
            return e.id, self.env[e.id]
        if isinstance(e, (ast.Set, ast.List)):
            if not e.elts or not all(is_const(x, kind=str) for x in e.elts):
                self.refuse(e, "literal is not a non-empty set / list of strings")
            vals = [x.value for x in e.elts]
            if len(set(vals)) != len(vals):
                self.refuse(e, "literal with a repeated element")
            text = "[" + "; ".join(coq_string(v, self.where(e)) for v in vals) + "]"
            return text, ("SETSTR" if isinstance(e, ast.Set) else "LSTR")
        if isinstance(e, ast.UnaryOp) and isinstance(e.op, ast.Not):
            return f"(negb {self.test(e.operand)})", "B"
        if isinstance(e, ast.BinOp):
            if isinstance(e.op, ast.Sub):
                a, ta = self.expr(e.left)
                b, tb = self.expr(e.right)
                if ta == "SETSTR" and tb == "SETSTR":
                    return f"(set_diff {a} {b})", "SETSTR"
            self.refuse(e, "operator not supported")
        if isinstance(e, ast.BoolOp):
            return self.boolop(e)
        if isinstance(e, ast.Compare):
            return self.compare(e)
        if isinstance(e, ast.Attribute):
            return self.attribute(e)
        if isinstance(e, ast.Subscript):
            return self.subscript(e)
        if isinstance(e, ast.Call):
            return self.call(e)
        self.refuse(e, "expression shape not supported")

    def test(self, t):
        """an expression used for its truth value"""
        text, ty = self.expr(t)
        if ty == "B":
            return text
        if ty == "SETSTR":
            return f"(set_nonempty {text})"
        self.refuse(t, f"truth value of a value of type {ty}")

    def boolop(self, e):
        is_and = isinstance(e.op, ast.And)
        acc = self.test(e.values[0])
        for v in e.values[1:]:
            pre, text = self.isolated(lambda v=v: self.test(v))
            if not pre:
                acc = f"({acc} {'&&' if is_and else '||'} {text})"
                continue
            inner = self.wrap(pre, f"Ok {text}", " ").replace("\n", "")
            if is_and:
                acc, _ = self.eff(f"(if {acc} then{inner} else Ok false)", "B")
            else:
                acc, _ = self.eff(f"(if {acc} then Ok true else{inner})", "B")
        return acc, "B"

    def compare(self, e):
        if len(e.ops) != 1:
            self.refuse(e, "chained comparison")
        op, left, right = e.ops[0], e.left, e.comparators[0]
        if isinstance(op, (ast.Is, ast.IsNot)):
            if not (is_const(right) and right.value is None):
                self.refuse(e, "`is` with something else than None")
            r = f"(py_is_none {self.want(left, self.expr(left), 'JV')})"
            return (r if isinstance(op, ast.Is) else f"(negb {r})"), "B"
        if isinstance(op, (ast.In, ast.NotIn)):
            r = self.membership(e, left, right)
            return (r if isinstance(op, ast.In) else f"(negb {r})"), "B"
        a, ta = self.expr(left)
        b, tb = self.expr(right)
        if isinstance(op, (ast.Eq, ast.NotEq)):
            if ta == "SHAPE" and tb == "SHAPE":
                r = f"(shape_eqb {a} {b})"
            elif ta == "Z" and tb == "Z":
                r = f"({a} =? {b})"
            elif ta == "STR" and tb == "STR":
                r = f"(String.eqb {a} {b})"
            else:
                self.refuse(e, f"equality between {ta} and {tb} not supported")
            return (r if isinstance(op, ast.Eq) else f"(negb {r})"), "B"
        if isinstance(op, ast.Lt) and ta == "JV" and tb == "JV":
            return self.eff(f"py_lt {a} {b}", "B")
        if isinstance(op, ast.Gt) and ta == "CELLS" and tb == "CELLS":
            return f"(np_gt {a} {b})", "BOOLS"
        self.refuse(e, f"comparison {type(op).__name__} between {ta} and {tb} not supported")

    def membership(self, e, key, container):
        # "band_im" in dataset.coords / "band_disp" in disparity.coords
        if isinstance(container, ast.Attribute) and container.attr == "coords" and is_name(container.value):
            x, tx = self.expr(container.value)
            if tx == "DS" and is_const(key, "band_im", str):
                return f"(ds_has_coord_band_im {x})"
            if tx == "DISP" and is_const(key, "band_disp", str):
                return f"(da_has_coord_band_disp {x})"
            self.refuse(e, "membership in .coords not supported")
        k = self.want(key, self.expr(key), "STR")
        c, tc = self.expr(container)
        if tc == "DS":
            return f"(ds_contains {c} {k})"
        if tc == "JV":
            return self.eff(f"py_contains {k} {c}", "B")[0]
        self.refuse(e, f"membership in a value of type {tc}")

    def attribute(self, e):
        v = e.value
        # x.coords["k"].data
        if e.attr == "data" and isinstance(v, ast.Subscript) and isinstance(v.value, ast.Attribute) \
                and v.value.attr == "coords" and is_name(v.value.value):
            x, tx = self.expr(v.value.value)
            k = subscript_key(v)
            if tx == "DS" and is_const(k, "band_im", str):
                return self.eff(f"ds_coord_band_im {x}", "LBAND")
            if tx == "DISP" and is_const(k, "band_disp", str):
                return self.eff(f"da_coord_band_disp {x}", "LLABEL")
            self.refuse(e, "coordinate not supported")
        # x.sel(band_disp="min").data
        if e.attr == "data" and isinstance(v, ast.Call) and isinstance(v.func, ast.Attribute) and v.func.attr == "sel":
            x, tx = self.expr(v.func.value)
            if tx != "DISP" or v.args or len(v.keywords) != 1 or v.keywords[0].arg != "band_disp" \
                    or not is_const(v.keywords[0].value, kind=str) or v.keywords[0].value.value not in LABELS:
                self.refuse(e, ".sel is not disparity.sel(band_disp=\"min\" | \"max\")")
            return self.eff(f"da_sel_band_disp {x} {LABELS[v.keywords[0].value.value]}", "CELLS")
        x, tx = self.expr(v)
        if e.attr == "data" and tx in ("IM", "DA"):
            return x, tx + "DATA"
        if e.attr == "shape" and tx == "IMDATA":
            return f"(im_shape {x})", "SHAPE"
        if e.attr == "shape" and tx == "DADATA":
            return f"(da_shape {x})", "SHAPE"
        if e.attr in ("width", "height", "count") and tx == "RF":
            return f"(rf_{e.attr} {x})", "Z"
        if e.attr == "attrs" and tx == "DS":
            return f"(ds_attrs {x})", "LSTR"
        self.refuse(e, f"attribute of a value of type {tx} not supported")

    def subscript(self, e):
        k = subscript_key(e)
        x, tx = self.expr(e.value)
        # s[-2:]
        if isinstance(k, ast.Slice):
            lo = k.lower
            neg2 = lo is not None and (is_const(lo, -2, int) or isinstance(lo, ast.UnaryOp)
                                       and isinstance(lo.op, ast.USub) and is_const(lo.operand, 2, int))
            if tx == "SHAPE" and neg2 and k.upper is None and k.step is None:
                return f"(last2 {x})", "SHAPE"
            self.refuse(e, "slice not supported")
        if tx == "DS":
            if is_const(k, "im", str):
                return self.eff(f"ds_item_im {x}", "IM")
            if is_const(k, "disparity", str):
                return self.eff(f"ds_item_disparity {x}", "DISP")
            return self.eff(f"ds_item {x} {self.want(k, self.expr(k), 'STR')}", "DA")
        if tx == "JV":
            kt, kty = self.expr(k)
            if kty == "STR":
                return self.eff(f"py_subscript {x} {kt}", "JV")
            if kty == "Z":
                return self.eff(f"py_index {x} {kt}", "JV")
        self.refuse(e, f"subscript of a value of type {tx} not supported")

    def call(self, c):
        f = c.func
        if isinstance(f, ast.Attribute) and is_name(f.value, "np") and f.attr == "isnan":
            if len(c.args) != 1 or c.keywords:
                self.refuse(c, "arguments")
            x, tx = self.expr(c.args[0])
            if tx == "IMDATA":
                return f"(np_isnan (im_cells {x}))", "BOOLS"
            self.refuse(c, f"np.isnan of a value of type {tx}")
        if isinstance(f, ast.Attribute) and f.attr in ("all", "any") and not c.args and not c.keywords:
            return f"(np_{f.attr} {self.want(f.value, self.expr(f.value), 'BOOLS')})", "B"
        if isinstance(f, ast.Attribute) and f.attr == "issubset" and len(c.args) == 1 and not c.keywords \
                and isinstance(f.value, ast.Set) and f.value.elts \
                and all(is_const(x, kind=str) and x.value in LABELS for x in f.value.elts):
            have = self.want(c.args[0], self.expr(c.args[0]), "LLABEL")
            wanted = "[" + "; ".join(LABELS[x.value] for x in f.value.elts) + "]"
            return f"(labels_issubset {wanted} {have})", "B"
        if isinstance(f, ast.Attribute) and f.attr == "read" and len(c.args) == 1 and not c.keywords \
                and is_const(c.args[0], kind=int):
            x = self.want(f.value, self.expr(f.value), "RF")
            return self.eff(f"rio_read {x} {c.args[0].value}", "CELLS")
        if is_name(f, "all") and len(c.args) == 1 and not c.keywords and isinstance(c.args[0], ast.GeneratorExp):
            g = c.args[0]
            if len(g.generators) != 1 or g.generators[0].ifs or g.generators[0].is_async \
                    or not is_name(g.generators[0].target):
                self.refuse(c, "generator shape not supported")
            it, tit = self.expr(g.generators[0].iter)
            if tit != "LBAND":
                self.refuse(c, f"all(... for .. in a value of type {tit})")
            return f"(forallb {self.lam(c, g.generators[0].target.id, 'BAND', g.elt)} {it})", "B"
        if is_name(f, "isinstance") and len(c.args) == 2 and not c.keywords and is_name(c.args[1]) \
                and c.args[1].id in PYTYPES:
            x, tx = self.expr(c.args[0])
            if tx == "BAND" and c.args[1].id == "str":
                return f"(bandname_is_str {x})", "B"
            if tx == "JV":
                return f"(isinstance {x} {PYTYPES[c.args[1].id]})", "B"
            self.refuse(c, f"isinstance of a value of type {tx}")
        if is_name(f, "len") and len(c.args) == 1 and not c.keywords:
            return self.eff(f"py_len {self.want(c.args[0], self.expr(c.args[0]), 'JV')}", "Z")
        if is_name(f, "set") and len(c.args) == 1 and not c.keywords:
            return f"(py_set {self.want(c.args[0], self.expr(c.args[0]), 'LSTR')})", "SETSTR"
        if is_name(f, "str") and len(c.args) == 1 and not c.keywords:
            return f"(py_str {self.want(c.args[0], self.expr(c.args[0]), 'STR')})", "STR"
        if is_name(f, "filter") and len(c.args) == 2 and not c.keywords and isinstance(c.args[0], ast.Lambda):
            lam = c.args[0]
            a = lam.args
            if len(a.args) != 1 or a.vararg or a.kwarg or a.kwonlyargs or a.defaults or getattr(a, "posonlyargs", []):
                self.refuse(c, "lambda shape not supported")
            it, tit = self.expr(c.args[1])
            if tit == "DS":
                it = f"(ds_iter {it})"
            elif tit != "LSTR":
                self.refuse(c, f"filter over a value of type {tit}")
            return f"(filter {self.lam(c, a.args[0].arg, 'STR', lam.body)} {it})", "LSTR"
        if is_name(f, "rasterio_open") and len(c.args) == 1 and not c.keywords:
            return self.eff(f"rasterio_open fs {self.want(c.args[0], self.expr(c.args[0]), 'JV')}", "RF")
        self.refuse(c, "call not supported")

    def lam(self, node, var, ty, body):
        """fun var => <pure boolean body>"""
        if var in self.env:
            self.refuse(node, f"the bound variable {var} shadows a local")
        self.bind_name(node, var, ty)
        pre, text = self.isolated(lambda: self.test(body))
        del self.env[var]
        if pre:
            self.refuse(node, "the body of a lambda / generator may raise")
        return f"(fun {var} => {text})"

    # ------------------------------------------------------------------ statements -> text of type res unit
    def block(self, stmts, ind):
        stmts = [s for s in stmts if not (isinstance(s, ast.Expr) and is_const(s.value, kind=str))]
        if not stmts:
            return "  " * ind + "Ok tt"
        return self.stmts(stmts, ind)

    def seq(self, first, rest, ind):
        """first (a term of type res unit, already indented) then the rest"""
        if not rest:
            return first
        pad = "  " * ind
        return f"{pad}andthen (\n{first}\n{pad}) (\n{self.stmts(rest, ind + 1)}\n{pad})"

    def scoped(self, stmts, ind):
        """a nested block: what it binds stays local to it"""
        saved = dict(self.env)
        pre, text = self.isolated(lambda: self.block(stmts, ind))
        self.env = saved
        if pre:
            fail(self.fname, f"{self.name}: internal error, a nested block leaked bindings")
        return text

    def stmts(self, stmts, ind):
        pad = "  " * ind
        s, rest = stmts[0], stmts[1:]
        if isinstance(s, ast.Raise):
            if rest:
                self.refuse(rest[0], "statement after a raise")
            return pad + self.raise_(s)
        if isinstance(s, ast.If):
            pre, tst = self.isolated(lambda: self.test(s.test))
            if len(s.body) == 1 and isinstance(s.body[0], ast.Raise) and not s.orelse:
                if not rest:
                    tail = pad + "Ok tt"
                else:
                    tail = self.stmts(rest, ind)
                return self.wrap(pre, f"if {tst} then {self.raise_(s.body[0])} else\n", pad) + tail
            if not rest:
                return self._if_plain(pre, tst, s, ind)
            first = self._if_plain(pre, tst, s, ind + 1)
            return f"{pad}andthen (\n{first}\n{pad}) (\n{self.stmts(rest, ind + 1)}\n{pad})"
        if isinstance(s, ast.Assign):
            if len(s.targets) != 1 or not is_name(s.targets[0]):
                self.refuse(s, "assignment target not supported")
            name = s.targets[0].id
            pre, (text, ty) = self.isolated(lambda: self.expr(s.value))
            if ty in ("NONE", "IMDATA", "DADATA"):
                self.refuse(s, f"a value of type {ty} is stored in a variable")
            if not rest:
                self.refuse(s, "an assignment ends the block")
            if name in self.env and self.env[name] != ty:
                self.refuse(s, f"{name} is re-assigned with another type")
            self.bind_name(s, name, ty)
            if pre and text == pre[-1][0]:       # x = <effectful>: bind x itself
                pre[-1] = (name, pre[-1][1])
                return self.wrap(pre, "", pad).rstrip() + "\n" + self.stmts(rest, ind)
            return self.wrap(pre, f"let {name} := {text} in\n", pad) + self.stmts(rest, ind)
        if isinstance(s, ast.Expr) and isinstance(s.value, ast.Call) and is_name(s.value.func) \
                and s.value.func.id in FUNCS:
            pre, text = self.isolated(lambda: self.fcall(s.value))
            first = self.wrap(pre, text, pad + ("  " if rest else ""))
            return self.seq(first, rest, ind)
        if isinstance(s, ast.For):
            if s.orelse or not is_name(s.target):
                self.refuse(s, "for loop shape not supported")
            pre, (it, tit) = self.isolated(lambda: self.expr(s.iter))
            if tit != "LSTR":
                self.refuse(s, f"iteration over a value of type {tit}")
            var = s.target.id
            if var in self.env:
                self.refuse(s, f"the loop variable {var} shadows a local")
            saved = dict(self.env)
            self.bind_name(s, var, "STR")
            shift = 1 if rest else 0
            body = self.scoped(s.body, ind + shift + 1)
            self.env = saved
            p2 = pad + "  " * shift
            first = self.wrap(pre, f"for_each {it} (fun {var} =>\n{body}\n{p2})", p2)
            return self.seq(first, rest, ind)
        self.refuse(s, "statement shape not supported")

    def _if_plain(self, pre, tst, s, ind):
        pad = "  " * ind
        return self.wrap(pre, f"if {tst} then\n{self.scoped(s.body, ind + 1)}\n{pad}else\n"
                              f"{self.scoped(s.orelse, ind + 1)}", pad)

    def raise_(self, s):
        x = s.exc
        if s.cause is not None or not (isinstance(x, ast.Call) and is_name(x.func) and x.func.id in EXC):
            self.refuse(s, "raise of something else than a known exception class")
        return f"Raise {EXC[x.func.id]}"

    def fcall(self, c):
        callee = c.func.id
        if callee not in self.sigs:
            self.refuse(c, f"{callee} is called before it is translated (dependency order)")
        names = self.sigs[callee]
        actual = {}
        if len(c.args) > len(names):
            self.refuse(c, "too many arguments")
        for n, a in zip(names, c.args):
            actual[n] = a
        for kw in c.keywords:
            if kw.arg is None or kw.arg not in names or kw.arg in actual:
                self.refuse(c, f"keyword {kw.arg} not supported")
            actual[kw.arg] = kw.value
        if set(actual) != set(names):
            self.refuse(c, f"arguments of {callee} missing: {sorted(set(names) - set(actual))}")
        # Python evaluates positional arguments, then keywords, in the order written
        order = list(c.args) + [kw.value for kw in c.keywords]
        texts = {}
        for a in order:
            n = next(k for k, v in actual.items() if v is a)
            texts[n] = self.want(a, self.expr(a), PARAM_TYPES[callee][names.index(n)])
        if callee in USES_FS and self.name not in USES_FS:
            self.refuse(c, f"{callee} reads the file system and {self.name} is outside the section over it")
        return f"{callee} " + " ".join(texts[n] for n in names)


HEADER = """From Coq Require Import ZArith QArith List Bool String.
From Pandora Require Import Model.Json Model.Checker Model.DatasetCheck Model.InputCheck Model.CheckPrims.
Import ListNotations.
Open Scope Z_scope.

"""

WATCHED = set(FUNCS) | {"rasterio_open", "np", "xr", "rasterio", "filter", "all", "isinstance", "len", "set", "str"} \
    | set(EXC)


def bound_names(stmt):
    """names a module-level statement binds (recursively through if / try / with / for blocks)"""
    out = []
    if isinstance(stmt, (ast.FunctionDef, ast.AsyncFunctionDef, ast.ClassDef)):
        out.append(stmt.name)
    elif isinstance(stmt, (ast.Import, ast.ImportFrom)):
        for a in stmt.names:
            out.append((a.asname or a.name).split(".")[0])
            if a.name == "*":
                out.append("*")
    elif isinstance(stmt, (ast.Assign, ast.AnnAssign, ast.AugAssign, ast.Delete)):
        targets = stmt.targets if isinstance(stmt, (ast.Assign, ast.Delete)) else [stmt.target]
        for t in targets:
            for n in ast.walk(t):
                if isinstance(n, ast.Name):
                    out.append(n.id)
    else:
        for child in ast.iter_child_nodes(stmt):
            if isinstance(child, ast.stmt):
                out += bound_names(child)
            elif isinstance(child, ast.ExceptHandler):
                for c2 in child.body:
                    out += bound_names(c2)
        for n in ast.walk(stmt):
            if isinstance(n, ast.NamedExpr) and isinstance(n.target, ast.Name):
                out.append(n.target.id)
    return out


def check_module(tree, path):
    """the names the translation relies on are bound once, the expected way, at module level; nothing pokes
    into globals()"""
    seen = {}
    for stmt in tree.body:
        for n in bound_names(stmt):
            if n == "*":
                fail(f"{path}:{stmt.lineno}", "star import")
            if n in WATCHED:
                seen.setdefault(n, []).append(stmt)
    for n in FUNCS:
        if len(seen.get(n, [])) != 1 or not isinstance(seen[n][0], ast.FunctionDef):
            fail(path, f"{n} is not bound exactly once, by a top-level def")
    expected = {
        "np": lambda s: isinstance(s, ast.Import) and [(a.name, a.asname) for a in s.names] == [("numpy", "np")],
        "xr": lambda s: isinstance(s, ast.Import) and [(a.name, a.asname) for a in s.names] == [("xarray", "xr")],
        "rasterio": lambda s: isinstance(s, ast.Import) and [(a.name, a.asname) for a in s.names] == [("rasterio", None)],
        "rasterio_open": lambda s: isinstance(s, ast.ImportFrom) and s.module == "pandora.img_tools" and s.level == 0
        and any(a.name == "rasterio_open" and a.asname is None for a in s.names),
    }
    for n, ok in expected.items():
        if len(seen.get(n, [])) != 1 or not ok(seen[n][0]):
            fail(path, f"{n} is not bound exactly once, by the expected import")
    for n in WATCHED - set(FUNCS) - set(expected):
        if n in seen:
            fail(f"{path}:{seen[n][0].lineno}", f"the builtin {n} is rebound at module level")
    for node in ast.walk(tree):
        if isinstance(node, ast.Call) and is_name(node.func) and node.func.id in ("globals", "setattr", "exec", "eval",
                                                                                  "__import__", "vars"):
            fail(f"{path}:{node.lineno}", f"call of {node.func.id}")
        if isinstance(node, ast.Global):
            fail(f"{path}:{node.lineno}", "global statement")


def check_rasterio_open(path):
    """img_tools.rasterio_open is the plain wrapper: [docstring]; with warnings.catch_warnings(): filterwarnings;
    return rasterio.open(*args, **kwargs)"""
    with open(path) as f:
        text = f.read()
    tree = ast.parse(text)
    defs = [s for s in tree.body if "rasterio_open" in bound_names(s)]
    if len(defs) != 1 or not isinstance(defs[0], ast.FunctionDef) or defs[0].decorator_list:
        fail(path, "rasterio_open is not bound exactly once, by a plain top-level def")
    ras = [s for s in tree.body if "rasterio" in bound_names(s)]
    if len(ras) != 1 or not (isinstance(ras[0], ast.Import) and [(a.name, a.asname) for a in ras[0].names] == [("rasterio", None)]):
        fail(path, "rasterio is not bound exactly once, by `import rasterio`")
    fn = defs[0]
    a = fn.args
    if a.args or a.kwonlyargs or getattr(a, "posonlyargs", []) or a.vararg is None or a.kwarg is None:
        fail(f"{path}:{fn.lineno}", "rasterio_open: signature is not (*args, **kwargs)")
    body = [s for s in fn.body if not (isinstance(s, ast.Expr) and is_const(s.value, kind=str))]
    want = f"return rasterio.open(*{a.vararg.arg}, **{a.kwarg.arg})"
    ok = len(body) == 1 and isinstance(body[0], ast.With) and len(body[0].items) == 1 \
        and ast.unparse(body[0].items[0].context_expr) == "warnings.catch_warnings()" \
        and body[0].items[0].optional_vars is None and len(body[0].body) == 2 \
        and isinstance(body[0].body[0], ast.Expr) and isinstance(body[0].body[0].value, ast.Call) \
        and ast.unparse(body[0].body[0].value.func) == "warnings.filterwarnings" \
        and ast.unparse(body[0].body[1]) == want
    if not ok:
        fail(f"{path}:{fn.lineno}", "rasterio_open is not the plain `with warnings.catch_warnings(): "
                                    "warnings.filterwarnings(..); return rasterio.open(*args, **kwargs)` wrapper")
    src = "\n".join(text.splitlines()[fn.lineno - 1:fn.end_lineno])
    return (path, f"lines {fn.lineno}-{fn.end_lineno} (rasterio_open)", sha1_of(src))


def translate():
    cc_path = os.path.join(REPO, "pandora", "check_configuration.py")
    it_path = os.path.join(REPO, "pandora", "img_tools.py")
    for p in (cc_path, it_path):
        if not os.path.exists(p):
            fail(p, "file not found")
    with open(cc_path) as f:
        text = f.read()
    tree = ast.parse(text)
    check_module(tree, cc_path)
    sources = []
    defs = {s.name: s for s in tree.body if isinstance(s, ast.FunctionDef) and s.name in FUNCS}
    sigs, stats = {}, []
    ds_part, fs_part = "", ""
    def forbid(name, nodes):
        for top in nodes:
            for node in ast.walk(top):
                if isinstance(node, (ast.Return, ast.Yield, ast.YieldFrom, ast.Try, ast.With, ast.While, ast.Nonlocal,
                                     ast.FunctionDef, ast.AsyncFunctionDef, ast.ClassDef, ast.Import,
                                     ast.ImportFrom, ast.Delete, ast.AugAssign, ast.NamedExpr, ast.Await, ast.Break,
                                     ast.Continue)):
                    fail(f"{cc_path}:{node.lineno}", f"{name}: {type(node).__name__} not supported")

    def emit_fn(name, params, stmts, lineno, end_lineno, title):
        nonlocal ds_part, fs_part
        tr = Fn(cc_path, name, params, sigs)
        body = tr.block(stmts, 2 if name in USES_FS else 1)
        if tr.pre:
            fail(f"{cc_path}:{lineno}", f"{name}: internal error, unbound temporaries")
        binders = " ".join(f"({p} : {COQ_TYPES[t]})" for p, t in zip(params, PARAM_TYPES[name]))
        pad = "  " if name in USES_FS else ""
        one = (f"{pad}(* check_configuration.{title}, lines {lineno}-{end_lineno} *)\n"
               f"{pad}Definition {name} {binders} : res unit :=\n{body}.\n\n")
        if name in USES_FS:
            fs_part += one
        else:
            ds_part += one
        sigs[name] = params
        src = "\n".join(text.splitlines()[lineno - 1:end_lineno])
        sources.append((cc_path, f"lines {lineno}-{end_lineno} ({name})", sha1_of(src)))
        stats.append(f"{name}={len([x for x in stmts if not (isinstance(x, ast.Expr) and is_const(x.value, kind=str))])}")

    for name in FUNCS:
        fn = defs[name]
        where = f"{cc_path}:{fn.lineno}"
        if fn.decorator_list:
            fail(where, f"{name} is decorated")
        a = fn.args
        params = [x.arg for x in a.args]
        if a.vararg or a.kwarg or a.kwonlyargs or getattr(a, "posonlyargs", []) or a.defaults \
                or len(params) != len(PARAM_TYPES[name]):
            fail(where, f"{name}: unexpected signature {ast.unparse(a)}")
        for p in params:
            if p in RESERVED:
                fail(where, f"{name}: parameter name {p} is reserved by the generated text")
        forbid(name, fn.body)
        emit_fn(name, params, fn.body, fn.lineno, fn.end_lineno, f"{name}({', '.join(params)})")

    # the custom checking of check_input_section: what follows `checker.validate(cfg)` up to `return cfg`
    cis = [x for x in tree.body if "check_input_section" in bound_names(x)]
    if len(cis) != 1 or not isinstance(cis[0], ast.FunctionDef) or cis[0].decorator_list:
        fail(cc_path, "check_input_section is not bound exactly once, by a plain top-level def")
    fn = cis[0]
    where = f"{cc_path}:{fn.lineno}"
    body = [x for x in fn.body if not (isinstance(x, ast.Expr) and is_const(x.value, kind=str))]
    if not body or not (isinstance(body[-1], ast.Return) and is_name(body[-1].value)):
        fail(where, "check_input_section does not end with `return <name>`")
    cfg = body[-1].value.id
    if cfg in RESERVED:
        fail(where, f"check_input_section: the name {cfg} is reserved by the generated text")
    first = body[0]
    if not (isinstance(first, ast.Assign) and len(first.targets) == 1 and is_name(first.targets[0], cfg)
            and isinstance(first.value, ast.Call) and is_name(first.value.func, "update_conf")):
        fail(where, f"check_input_section does not start with `{cfg} = update_conf(..)`")
    val = [i for i, x in enumerate(body)
           if isinstance(x, ast.Expr) and isinstance(x.value, ast.Call) and isinstance(x.value.func, ast.Attribute)
           and x.value.func.attr == "validate" and len(x.value.args) == 1 and is_name(x.value.args[0], cfg)
           and not x.value.keywords]
    if len(val) != 1:
        fail(where, f"check_input_section: expected exactly one top-level statement `<checker>.validate({cfg})`")
    for x in body[1:val[0]]:
        for node in ast.walk(x):
            if isinstance(node, (ast.Return, ast.Yield, ast.YieldFrom)):
                fail(f"{cc_path}:{node.lineno}", "check_input_section: a return before the validation")
            if isinstance(node, (ast.Assign, ast.AugAssign, ast.AnnAssign, ast.NamedExpr, ast.Delete, ast.For)):
                targets = node.targets if isinstance(node, (ast.Assign, ast.Delete)) else [node.target]
                if any(is_name(t, cfg) for t in targets):
                    fail(f"{cc_path}:{node.lineno}", f"check_input_section: {cfg} is re-assigned before the validation")
    tail = body[val[0] + 1:-1]
    if not tail:
        fail(where, "check_input_section: no custom check after the validation")
    forbid(CUSTOM, tail)
    emit_fn(CUSTOM, [cfg], tail, tail[0].lineno, tail[-1].end_lineno,
            f"check_input_section, after checker.validate({cfg})")
    sources.append(check_rasterio_open(it_path))
    body = (HEADER + ds_part
            + "Section Fs.\n  (* rasterio.open: the raster files behind the paths *)\n"
              "  Variable fs : string -> option rfile.\n\n" + fs_part + "End Fs.\n")
    path, changed = emit("CheckFns", body, sources)
    print(f"gen_check_fns: {path} {'rewritten' if changed else 'unchanged'} statements: {' '.join(stats)}")


def main():
    try:
        translate()
    except BaseException as exc:
        # fail closed: no stale definitions from an earlier run may stay behind for Proofs/CheckGenP.v to be checked
        # against; an empty file makes the equality obligations (and what is built on them) fail to build
        msg = f"{type(exc).__name__}: {exc}".replace("*)", "* )").replace("(*", "( *")
        emit("CheckFns", f"(* TRANSLATION FAILED, nothing generated:\n   {msg}\n*)\n", [])
        raise


if __name__ == "__main__":
    try:
        main()
    except Exception as exc:  # fail closed, one line for the caller
        print(f"TRANSLATION-ERROR gen_check_fns: {type(exc).__name__}: {exc}")
        sys.exit(3)
