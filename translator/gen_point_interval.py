"""T-gen: coq/Gen/PointInterval.v -- the index arithmetic of the matching-cost step (Python `ast`).

Translated, statement by statement, into straight-line Gallina over Z:

  AbstractMatchingCost.point_interval           -> point_interval s img_left_cols img_right_cols disp
  AbstractMatchingCost.get_min_max_from_grid    -> get_min_max_from_grid ny nx disp_min disp_max
  AbstractMatchingCost.cv_masked, first loop    -> cv_masked_loop ...  = (i_right, (point_p, point_q), i_mask_right, dsp)
  AbstractMatchingCost.cv_masked, second loop   -> cv_masked_out_of_range s disp_min disp_max r c disp : bool
  SadSsd / Census / Zncc.compute_cost_volume,   -> sad_ssd_loop / census_loop / zncc_loop ...
      the loop over the disparities                = (i_right, (point_p, point_q), (first, last column written)
                                                      [, (p_std, q_std) for zncc])

Number representation (coq/Model/PyArith.v): a Python value is an INTEGER (Z) or a REAL multiple of 1/subpix
represented by X = x * subpix (s).  The translator infers which one each expression is: the disparity `disp` of
the loops / of point_interval is REAL, literals, sizes, `self._subpix`, `self._window_size`, grid values are
INTEGERS; `+ - max min <` of an integer and a real coerce the integer (py_real); real * integer, real % integer,
ceil / floor / int of a real are the scaled operations of PyArith.v; real * real, `/` (except int(a / b) of two
integers), `**`, floats literals ... are refused.

A loop body is translated as follows: each top-level `name = <expr>` (or `a, b = <pair>`) whose right-hand side
is in the expression language becomes a `let`; every other statement is OPAQUE: the names it stores become
unusable, so that a translated expression never depends on something that was not translated.  What the
generated function RETURNS is found by the USE of the values, not by the names of the locals:
  i_right       the index in  img_right_shift[<i_right>]  of the point_interval call,
  point_p/q     the two targets of  `= self.point_interval(<left>, img_right_shift[i_right], disp)`,
  dsp           the last index of the two  cost_volume["cost_volume"].data[:, <cols>, <dsp>] += ...,
  i_mask_right  the index in  mask_right[<i_mask_right>].data[:, <cols>]  of the second one,
  write range   the slice of  cv[<enumerate index>, <first> : <last>, :] = ...,
  p_std, q_std  arguments 4 and 5 of apply_divide_standard(...).
The index values must be used bare (as a subscript index or a call argument), never inside further arithmetic.
Anything else is a TranslationError naming file:line (fail closed)."""
import ast
import inspect
import json
import os
import sys
import textwrap

from common import emit, fail, sha1_of, REPO, TranslationError, GEN_DIR

INT, REAL, GRID = "int", "real", "grid"
RESERVED = {"fst", "snd", "let", "in", "if", "then", "else", "fun", "match", "with", "end", "as", "at",
            "forall", "exists", "Z", "Type", "Prop", "Set", "point_interval", "get_min_max_from_grid",
            "grid_min", "grid_max", "img", "bool", "true", "false", "negb", "py_real", "py_ceil", "py_floor",
            "py_int", "py_int_div", "py_mod", "py_mul_ri", "return", "where", "fix", "cofix", "using"}
DISP_COORDS = "cost_volume.coords['disp'].data"
CV_DATA = "cost_volume['cost_volume'].data"


def pair_t(a, b):
    return ("pair", a, b)


def is_pair(t):
    return isinstance(t, tuple) and t[0] == "pair"


def coq_type(t):
    if t in (INT, REAL):
        return "Z"
    if is_pair(t):
        return f"({coq_type(t[1])} * {coq_type(t[2])})"
    raise AssertionError(t)


class Opaque:
    def __init__(self, why):
        self.why = why


class Fn:
    """One Python function being translated."""

    def __init__(self, fname, line0, node, allow, params):
        self.fname, self.line0, self.node = fname, line0, node
        self.params = set(params)     # names of the parameters of the generated function: no local may shadow them
        self.allow = allow            # which `self._x` attributes / parameters exist in the generated signature
        self.env = {}                 # python local -> (coq text, type) | Opaque

    def where(self, node):
        return f"{self.fname}:{self.line0 + getattr(node, 'lineno', 1) - 1}"

    def is_grid(self, name):
        v = self.env.get(name)
        return isinstance(v, tuple) and v[1] == GRID

    def local(self, name, node):
        if name in RESERVED or name in self.params or name.startswith("_") and name != "_":
            fail(self.where(node), f"local name `{name}` clashes with a name of the generated file")
        return name

    # ------------------------------------------------------------ expressions
    def real(self, tv):
        txt, t = tv
        if t == REAL:
            return txt
        if t == INT:
            return f"(py_real s {txt})"
        raise TranslationError("not a number")

    def num2(self, a, b, node):
        for x in (a, b):
            if x[1] not in (INT, REAL):
                fail(self.where(node), f"number expected in {ast.unparse(node)}")
        if a[1] == INT and b[1] == INT:
            return a[0], b[0], INT
        return self.real(a), self.real(b), REAL

    def expr(self, e):
        """-> (coq text, type)"""
        if isinstance(e, ast.Constant):
            if isinstance(e.value, bool) or not isinstance(e.value, int):
                fail(self.where(e), f"constant {e.value!r} is not an integer")
            return (f"({e.value})" if e.value < 0 else str(e.value)), INT
        if isinstance(e, ast.Name):
            if e.id not in self.env:
                fail(self.where(e), f"unknown name {e.id}")
            v = self.env[e.id]
            if isinstance(v, Opaque):
                fail(self.where(e), f"`{e.id}` is not translated ({v.why})")
            return v
        if isinstance(e, ast.Attribute) and isinstance(e.value, ast.Name) and e.value.id == "self":
            if e.attr == "_subpix" and "s" in self.allow:
                return "s", INT
            if e.attr == "_window_size" and "w" in self.allow:
                return "w", INT
            fail(self.where(e), f"attribute self.{e.attr} not supported here")
        if isinstance(e, ast.Tuple) and len(e.elts) == 2:
            a, b = self.expr(e.elts[0]), self.expr(e.elts[1])
            return f"({a[0]}, {b[0]})", pair_t(a[1], b[1])
        if isinstance(e, ast.Subscript):
            # <dataset>.sizes["col"]
            if (isinstance(e.value, ast.Attribute) and e.value.attr == "sizes" and isinstance(e.value.value, ast.Name)
                    and isinstance(e.slice, ast.Constant) and e.slice.value == "col"
                    and e.value.value.id + "_cols" in self.allow):
                return e.value.value.id + "_cols", INT
            if isinstance(e.slice, ast.Constant) and e.slice.value in (0, 1) and not isinstance(e.slice.value, bool):
                v = self.expr(e.value)
                if is_pair(v[1]):
                    return f"({'fst' if e.slice.value == 0 else 'snd'} {v[0]})", v[1][1 + e.slice.value]
            fail(self.where(e), f"subscript not supported: {ast.unparse(e)}")
        if isinstance(e, ast.UnaryOp) and isinstance(e.op, ast.USub):
            v = self.expr(e.operand)
            if v[1] not in (INT, REAL):
                fail(self.where(e), "negation of something that is not a number")
            return f"(- {v[0]})", v[1]
        if isinstance(e, ast.BinOp):
            a, b = self.expr(e.left), self.expr(e.right)
            if isinstance(e.op, (ast.Add, ast.Sub)):
                x, y, t = self.num2(a, b, e)
                return f"({x} {'+' if isinstance(e.op, ast.Add) else '-'} {y})", t
            if isinstance(e.op, ast.Mult):
                if a[1] == INT and b[1] == INT:
                    return f"({a[0]} * {b[0]})", INT
                if a[1] == REAL and b[1] == INT:
                    return f"(py_mul_ri {a[0]} {b[0]})", REAL
                if a[1] == INT and b[1] == REAL:
                    return f"(py_mul_ri {b[0]} {a[0]})", REAL
                fail(self.where(e), f"product of two reals (or of non-numbers): {ast.unparse(e)}")
            if isinstance(e.op, ast.Mod):
                if a[1] == INT and b[1] == INT:
                    return f"(py_mod {a[0]} {b[0]})", INT
                if a[1] == REAL and b[1] in (INT, REAL):
                    return f"(py_mod {a[0]} {self.real(b)})", REAL
                fail(self.where(e), f"modulo not supported on these operands: {ast.unparse(e)}")
            fail(self.where(e), f"operator {type(e.op).__name__} not supported: {ast.unparse(e)}")
        if isinstance(e, ast.Call) and not e.keywords:
            f = e.func
            if isinstance(f, ast.Name) and f.id in ("max", "min") and len(e.args) == 2:
                x, y, t = self.num2(self.expr(e.args[0]), self.expr(e.args[1]), e)
                return f"(Z.{f.id} {x} {y})", t
            if isinstance(f, ast.Name) and f.id in ("ceil", "floor") and len(e.args) == 1:
                if "ceil_floor" not in self.allow:
                    fail(self.where(e), f"{f.id} is not math.{f.id} in this module")
                v = self.expr(e.args[0])
                if v[1] == INT:
                    return v
                if v[1] == REAL:
                    return f"(py_{f.id} s {v[0]})", INT
                fail(self.where(e), f"{f.id} of something that is not a number")
            if isinstance(f, ast.Name) and f.id == "int" and len(e.args) == 1:
                a = e.args[0]
                if isinstance(a, ast.BinOp) and isinstance(a.op, ast.Div):
                    x, y = self.expr(a.left), self.expr(a.right)
                    if x[1] == INT and y[1] == INT:
                        return f"(py_int_div {x[0]} {y[0]})", INT
                    fail(self.where(e), f"int(a / b) is only supported for two integers: {ast.unparse(e)}")
                if (isinstance(a, ast.Call) and isinstance(a.func, ast.Attribute) and isinstance(a.func.value, ast.Name)
                        and a.func.value.id == "np" and a.func.attr in ("nanmin", "nanmax") and len(a.args) == 1
                        and not a.keywords and isinstance(a.args[0], ast.Name)
                        and self.is_grid(a.args[0].id) and "grid" in self.allow):
                    g = self.env[a.args[0].id][0]
                    return f"(grid_{a.func.attr[3:]} ny nx {g})", INT
                v = self.expr(a)
                if v[1] == INT:
                    return v
                if v[1] == REAL:
                    return f"(py_int s {v[0]})", INT
                fail(self.where(e), "int() of something that is not a number")
            if (isinstance(f, ast.Attribute) and isinstance(f.value, ast.Name) and f.value.id == "self"
                    and f.attr == "get_min_max_from_grid" and len(e.args) == 2 and "grid" in self.allow
                    and all(isinstance(a, ast.Name) and self.is_grid(a.id) for a in e.args)):
                g, h = (self.env[a.id][0] for a in e.args)
                return f"(get_min_max_from_grid ny nx {g} {h})", pair_t(INT, INT)
        fail(self.where(e), f"expression shape not supported: {ast.unparse(e)}")

    def test(self, t):
        if isinstance(t, ast.BoolOp):
            op = " || " if isinstance(t.op, ast.Or) else " && "
            return "(" + op.join(self.test(v) for v in t.values) + ")"
        if isinstance(t, ast.UnaryOp) and isinstance(t.op, ast.Not):
            return f"(negb {self.test(t.operand)})"
        if isinstance(t, ast.Compare) and len(t.ops) == 1:
            cmp = {ast.Lt: "<?", ast.LtE: "<=?", ast.Gt: ">?", ast.GtE: ">=?", ast.Eq: "=?"}
            if type(t.ops[0]) not in cmp:
                fail(self.where(t), f"comparison {type(t.ops[0]).__name__} not supported")
            x, y, _ = self.num2(self.expr(t.left), self.expr(t.comparators[0]), t)
            return f"({x} {cmp[type(t.ops[0])]} {y})"
        fail(self.where(t), f"test shape not supported: {ast.unparse(t)}")

    # ------------------------------------------------------------ statements
    def targets(self, s):
        """Assign -> list of target names (1 or 2), or None"""
        if not (isinstance(s, ast.Assign) and len(s.targets) == 1):
            return None
        t = s.targets[0]
        if isinstance(t, ast.Name):
            return [t.id]
        if isinstance(t, ast.Tuple) and len(t.elts) == 2 and all(isinstance(x, ast.Name) for x in t.elts):
            return [x.id for x in t.elts]
        return None

    def let(self, s):
        """translate `x = e` / `a, b = e` into a let, update env; raises TranslationError"""
        names = self.targets(s)
        if names is None:
            fail(self.where(s), f"assignment shape not supported: {ast.unparse(s)}")
        txt, t = self.expr(s.value)
        if t == GRID:
            fail(self.where(s), "assignment of an array")
        if len(names) == 1:
            n = self.local(names[0], s)
            self.env[n] = (n, t)
            return f"let {n} := {txt} in"
        if not is_pair(t):
            fail(self.where(s), f"two targets but the value is not a pair: {ast.unparse(s)}")
        ns = [self.local(n, s) for n in names]
        for n, tt in zip(ns, t[1:]):
            if n != "_":
                self.env[n] = (n, tt)
        return f"let '({ns[0]}, {ns[1]}) := {txt} in"

    def branch(self, body):
        """a branch made only of translatable assignments -> (names assigned, lets); env is updated"""
        names, lets = [], []
        for s in body:
            ns = self.targets(s)
            if ns is None:
                fail(self.where(s), f"statement not supported inside a branch: {ast.unparse(s)}")
            lets.append(self.let(s))
            names += [n for n in ns if n not in names and n != "_"]
        return names, lets

    def straight(self, stmts, ind, ret):
        """a straight-line function body -> Gallina; `ret(node)` translates the returned expression"""
        pad = "  " * ind
        if not stmts:
            fail(f"{self.fname}:{self.line0}", "function falls off its end without a return")
        s, rest = stmts[0], stmts[1:]
        if isinstance(s, ast.Expr) and isinstance(s.value, ast.Constant) and isinstance(s.value.value, str):
            return self.straight(rest, ind, ret)
        if isinstance(s, ast.Assign):
            return f"{pad}{self.let(s)}\n" + self.straight(rest, ind, ret)
        if isinstance(s, ast.If):
            tst = self.test(s.test)
            before = dict(self.env)
            n1, l1 = self.branch(s.body)
            env1 = self.env
            self.env = dict(before)
            n2, l2 = self.branch(s.orelse)
            env2 = self.env
            names = n1 + [n for n in n2 if n not in n1]
            if not names:
                fail(self.where(s), "`if` without assignments")
            for n in names:
                if n not in env1 or n not in env2:
                    fail(self.where(s), f"`{n}` is assigned in one branch only and not defined before the `if`")
                if env1[n][1] != env2[n][1]:
                    fail(self.where(s), f"`{n}` does not have the same kind (integer / real / pair) in the two branches")
            self.env = dict(before)
            for n in names:
                self.env[n] = env1[n]
            tup = names[0] if len(names) == 1 else "(" + ", ".join(names) + ")"
            pat = names[0] if len(names) == 1 else "'" + tup
            b1 = " ".join(l1 + [tup])
            b2 = " ".join(l2 + [tup])
            return (f"{pad}let {pat} :=\n{pad}  if {tst}\n{pad}  then ({b1})\n{pad}  else ({b2}) in\n"
                    + self.straight(rest, ind, ret))
        if isinstance(s, ast.Return):
            if rest:
                fail(self.where(rest[0]), "statements after return")
            return f"{pad}{ret(s)}.\n"
        fail(self.where(s), f"statement shape not supported: {ast.unparse(s)}")


# ---------------------------------------------------------------- helpers on the ast


def stores(nodes):
    """multiset of the names stored anywhere inside the statements"""
    out = {}
    for n in nodes:
        for x in ast.walk(n):
            if isinstance(x, ast.Name) and isinstance(x.ctx, (ast.Store, ast.Del)):
                out[x.id] = out.get(x.id, 0) + 1
    return out


def parents(node):
    par = {}
    for p in ast.walk(node):
        for ch in ast.iter_child_nodes(p):
            par[ch] = p
    return par


def is_self_call(e, name):
    return (isinstance(e, ast.Call) and isinstance(e.func, ast.Attribute) and isinstance(e.func.value, ast.Name)
            and e.func.value.id == "self" and e.func.attr == name and not e.keywords)


def full_slice(x):
    return isinstance(x, ast.Slice) and x.lower is None and x.upper is None and x.step is None


class Loop:
    """The loop over the disparities of one function: prelude (the statements before it) + body."""

    def __init__(self, fn, loop_index):
        self.fn = fn
        self.body_fn = fn.node.body
        self.loop = self.body_fn[loop_index]
        self.prelude = self.body_fn[:loop_index]
        self.lets = []
        self.src = []                 # python text of the statements turned into lets (for harness/mc_gen.py)
        self.multi = {n for n, k in stores(self.prelude + self.loop.body).items() if k > 1}
        self.translated = set()       # statements turned into lets
        self.left_transformed = False
        self.right_transformed = False
        self.pi_call = None

    def opaque(self, s, why):
        for n in stores([s]):
            self.fn.env[n] = Opaque(why)

    def crop_noop(self, s):
        """`if g.shape[k] > n_: g = g[0:n_, :] ...` on grids: the identity when the grids have the shape of the
        cost volume (they do: both come from the left image)"""
        if not (isinstance(s, ast.If) and not s.orelse and s.body):
            return False
        for b in s.body:
            if not (isinstance(b, ast.Assign) and len(b.targets) == 1 and isinstance(b.targets[0], ast.Name)):
                return False
            g = b.targets[0].id
            if not self.fn.is_grid(g):
                return False
            v = b.value
            if not (isinstance(v, ast.Subscript) and isinstance(v.value, ast.Name) and v.value.id == g
                    and isinstance(v.slice, ast.Tuple) and len(v.slice.elts) == 2):
                return False
            kinds = []
            for x in v.slice.elts:
                if full_slice(x):
                    kinds.append("all")
                elif (isinstance(x, ast.Slice) and x.step is None and isinstance(x.lower, ast.Constant)
                      and x.lower.value == 0 and isinstance(x.upper, ast.Name)):
                    kinds.append("head")
                else:
                    return False
            if sorted(kinds) != ["all", "head"]:
                return False
        return True

    def statement(self, s, in_loop):
        fn = self.fn
        if isinstance(s, ast.Expr) and isinstance(s.value, ast.Constant):
            return
        names = fn.targets(s)
        if names is not None and not any(n in self.multi for n in names):
            # the point_interval call
            if is_self_call(s.value, "point_interval"):
                if not in_loop or self.pi_call is not None:
                    fail(fn.where(s), "unexpected (second, or out of the loop) call of point_interval")
                self.point_call(s, names)
                return
            try:
                let = fn.let(s)
            except TranslationError as exc:
                self.opaque(s, f"not in the expression language: {exc}")
                return
            self.lets.append(let)
            self.src.append(ast.unparse(s))
            self.translated.add(s)
            return
        if self.crop_noop(s):
            return
        for x in ast.walk(s):
            if is_self_call(x, "point_interval"):
                fail(fn.where(s), "call of point_interval in a statement shape that is not translated")
        self.opaque(s, "assigned by a statement that is not translated")

    def point_call(self, s, names):
        fn = self.fn
        call = s.value
        if len(names) != 2 or len(call.args) != 3:
            fail(fn.where(s), f"point_interval call shape: {ast.unparse(s)}")
        a0, a1, a2 = call.args
        # first argument: the left image, or its census transform
        if not isinstance(a0, ast.Name):
            fail(fn.where(s), "first argument of point_interval is not a name")
        if a0.id == fn.left_param:
            self.left_transformed = False
        else:
            srcs = [x for x in self.prelude if fn.targets(x) == [a0.id]]
            ok = (len(srcs) == 1 and stores(self.prelude + self.loop.body).get(a0.id) == 1
                  and isinstance(srcs[0].value, ast.Call) and isinstance(srcs[0].value.func, ast.Name)
                  and srcs[0].value.func.id == "census_transform" and srcs[0].value.args
                  and isinstance(srcs[0].value.args[0], ast.Name) and srcs[0].value.args[0].id == fn.left_param)
            if not ok:
                fail(fn.where(s), f"first argument `{a0.id}` of point_interval is neither the left image nor its census transform")
            self.left_transformed = True
        # second argument: <shifted right images>[i_right]
        if not (isinstance(a1, ast.Subscript) and isinstance(a1.value, ast.Name) and isinstance(a1.slice, ast.Name)):
            fail(fn.where(s), "second argument of point_interval is not <list of shifted images>[<name>]")
        rs = a1.value.id
        srcs = [x for x in self.prelude if fn.targets(x) == [rs]]
        ok = (len(srcs) == 1 and stores(self.prelude + self.loop.body).get(rs) == 1
              and isinstance(srcs[0].value, ast.Call) and isinstance(srcs[0].value.func, ast.Name)
              and srcs[0].value.func.id == "shift_right_img" and len(srcs[0].value.args) >= 2
              and isinstance(srcs[0].value.args[0], ast.Name) and srcs[0].value.args[0].id == fn.right_param
              and ast.unparse(srcs[0].value.args[1]) == "self._subpix")
        if not ok:
            fail(fn.where(s), f"`{rs}` is not shift_right_img(<right image>, self._subpix, ...)")
        self.right_transformed = any(
            isinstance(x, ast.Assign) and isinstance(x.targets[0], ast.Subscript)
            and isinstance(x.targets[0].value, ast.Name) and x.targets[0].value.id == rs
            for p in self.prelude for x in ast.walk(p))
        self.rs = rs
        i_txt, i_t = fn.expr(a1.slice)
        if i_t != INT:
            fail(fn.where(s), "the index of the shifted right image is not an integer")
        self.i_right = a1.slice.id
        if not (isinstance(a2, ast.Name) and a2.id == self.disp):
            fail(fn.where(s), "third argument of point_interval is not the disparity of the loop")
        ns = [fn.local(n, s) for n in names]
        if "_" in ns:
            fail(fn.where(s), "a result of point_interval is discarded")
        self.lets.append(f"let '({ns[0]}, {ns[1]}) := point_interval s nx_left (nx_right_shift {i_txt}) {fn.env[self.disp][0]} in")
        for n in ns:
            fn.env[n] = (n, pair_t(INT, INT))
        self.points = ns
        self.pi_call = s
        self.left_name = a0.id
        self.src.append(ast.unparse(s))
        self.translated.add(s)

    def run(self):
        for s in self.prelude:
            self.statement(s, False)
        for s in self.loop.body:
            self.statement(s, True)
        if self.pi_call is None:
            fail(self.fn.where(self.loop), "no call of point_interval in the loop over the disparities")

    def role(self, name_node, what):
        """a Name used at a role site -> coq text, checked to be a translated integer"""
        fn = self.fn
        if not isinstance(name_node, ast.Name):
            fail(fn.where(name_node), f"{what} is not a plain name: {ast.unparse(name_node)}")
        txt, t = fn.expr(name_node)
        if t != INT:
            fail(fn.where(name_node), f"{what} is not an integer")
        return txt

    def check_bare(self, names):
        """the index values are used as they are: a subscript index or a call argument"""
        fn = self.fn
        par = parents(self.loop)
        for s in self.loop.body:
            if s in self.translated:
                continue
            for x in ast.walk(s):
                if isinstance(x, ast.Name) and isinstance(x.ctx, ast.Load) and x.id in names:
                    p = par[x]
                    ok = (isinstance(p, ast.Subscript) and p.slice is x) \
                        or (isinstance(p, ast.Tuple) and isinstance(par.get(p), ast.Subscript) and par[p].slice is p) \
                        or (isinstance(p, ast.Call) and x in p.args)
                    if not ok:
                        fail(fn.where(x), f"`{x.id}` is used inside a further computation: {ast.unparse(p)}")
                if isinstance(x, ast.Name) and isinstance(x.ctx, ast.Load) and x.id == self.disp:
                    p = par[x]
                    if not (isinstance(p, ast.Call) and x in p.args):
                        fail(fn.where(x), f"the disparity is used in a statement that is not translated: {ast.unparse(s)[:80]}")

    def check_slices(self, skip):
        """every slice bounded by the point_interval results is <n>[0] : <n>[1]"""
        fn = self.fn
        watch = set(self.points) | set(getattr(self, "std_names", []))
        for s in self.loop.body:
            for x in ast.walk(s):
                if isinstance(x, ast.Slice) and x is not skip:
                    used = {n.id for b in (x.lower, x.upper, x.step) if b is not None for n in ast.walk(b)
                            if isinstance(n, ast.Name)}
                    if used & watch:
                        lo, hi = x.lower, x.upper
                        ok = (x.step is None and isinstance(lo, ast.Subscript) and isinstance(hi, ast.Subscript)
                              and isinstance(lo.value, ast.Name) and isinstance(hi.value, ast.Name)
                              and lo.value.id == hi.value.id and isinstance(lo.slice, ast.Constant)
                              and isinstance(hi.slice, ast.Constant) and (lo.slice.value, hi.slice.value) == (0, 1))
                        if not ok:
                            fail(fn.where(x), f"slice {ast.unparse(x)} is not <range>[0] : <range>[1]")


def compute_loop(fn, want_std):
    """for <k>, <disp> in enumerate(<coords of the cost volume>): ..."""
    body = fn.node.body
    idx = [i for i, s in enumerate(body) if isinstance(s, ast.For)
           and isinstance(s.iter, ast.Call) and isinstance(s.iter.func, ast.Name) and s.iter.func.id == "enumerate"
           and isinstance(s.target, ast.Tuple) and len(s.target.elts) == 2
           and any(is_self_call(x, "point_interval") for x in ast.walk(s))]
    if len(idx) != 1:
        fail(f"{fn.fname}:{fn.line0}", f"expected one `for k, disp in enumerate(...)` loop calling point_interval, found {len(idx)}")
    loop = body[idx[0]]
    if loop.orelse or len(loop.iter.args) != 1 or not isinstance(loop.iter.args[0], ast.Name) \
            or not all(isinstance(x, ast.Name) for x in loop.target.elts):
        fail(fn.where(loop), f"loop header not supported: {ast.unparse(loop.iter)}")
    rng = loop.iter.args[0].id
    srcs = [s for s in body[:idx[0]] if fn.targets(s) == [rng]]
    if not (len(srcs) == 1 and stores(body[:idx[0]] + loop.body).get(rng) == 1 and ast.unparse(srcs[0].value) == DISP_COORDS):
        fail(fn.where(loop), f"`{rng}` is not {DISP_COORDS}")
    lp = Loop(fn, idx[0])
    k, disp = (x.id for x in loop.target.elts)
    if k in lp.multi or disp in lp.multi or stores(loop.body).get(k) or stores(loop.body).get(disp):
        fail(fn.where(loop), "a loop variable is assigned in the loop")
    lp.disp = disp
    fn.env[fn.local(disp, loop)] = (disp, REAL)
    fn.env[k] = Opaque("the enumerate index")
    lp.run()
    # the write: <cv>[k, lo:hi, :] = ...
    writes = [s for s in loop.body if isinstance(s, ast.Assign) and len(s.targets) == 1
              and isinstance(s.targets[0], ast.Subscript) and isinstance(s.targets[0].slice, ast.Tuple)
              and any(isinstance(x, ast.Name) and x.id == k for x in s.targets[0].slice.elts)]
    if len(writes) != 1:
        fail(fn.where(loop), f"expected one assignment to <cost volume>[{k}, <first>:<last>, :], found {len(writes)}")
    wr = writes[0]
    el = wr.targets[0].slice.elts
    if not (len(el) == 3 and isinstance(el[0], ast.Name) and el[0].id == k and isinstance(el[1], ast.Slice)
            and el[1].step is None and el[1].lower is not None and el[1].upper is not None and full_slice(el[2])):
        fail(fn.where(wr), f"write shape not supported: {ast.unparse(wr.targets[0])}")
    lo, hi = fn.expr(el[1].lower), fn.expr(el[1].upper)
    if lo[1] != INT or hi[1] != INT:
        fail(fn.where(wr), "the bounds of the written column range are not integers")
    out = [fn.expr(ast.Name(id=lp.i_right, ctx=ast.Load()))[0], f"({lp.points[0]}, {lp.points[1]})", f"({lo[0]}, {hi[0]})"]
    typ = ["Z", "((Z * Z) * (Z * Z))", "(Z * Z)"]
    bare = {lp.i_right, k}
    if want_std:
        calls = [x for s in loop.body for x in ast.walk(s) if isinstance(x, ast.Call) and isinstance(x.func, ast.Name)
                 and x.func.id == "apply_divide_standard"]
        if len(calls) != 1 or len(calls[0].args) != 6 or calls[0].keywords:
            fail(fn.where(loop), "expected one call apply_divide_standard(zncc_, left_std, right_std, p_std, q_std, i_right)")
        a = calls[0].args
        std = []
        for x in a[3:5]:
            if not isinstance(x, ast.Name):
                fail(fn.where(x), "p_std / q_std argument is not a name")
            v = fn.expr(x)
            if v[1] != pair_t(INT, INT):
                fail(fn.where(x), f"`{x.id}` is not a pair of integers")
            std.append(v[0])
        if not (isinstance(a[5], ast.Name) and a[5].id == lp.i_right):
            fail(fn.where(a[5]), "last argument of apply_divide_standard is not the index of the shifted right image")
        lp.std_names = [x.id for x in a[3:5]]
        out.append(f"({std[0]}, {std[1]})")
        typ.append("((Z * Z) * (Z * Z))")
    else:
        # the pixel-wise cost is called on (point_p, point_q, <left>, <shifted right>[i_right])
        calls = [x for x in ast.walk(wr.value) if isinstance(x, ast.Call) and len(x.args) >= 2
                 and all(isinstance(y, ast.Name) for y in x.args[:2]) and {x.args[0].id, x.args[1].id} & set(lp.points)]
        if len(calls) != 1:
            fail(fn.where(wr), "expected one call <cost>(point_p, point_q, <left>, <shifted right>[i_right]) in the write")
        a = calls[0].args
        ok = (len(a) == 4 and [a[0].id, a[1].id] == lp.points and isinstance(a[2], ast.Name)
              and a[2].id == lp.pi_call.value.args[0].id
              and ast.unparse(a[3]) == f"{lp.rs}[{lp.i_right}]")
        if not ok:
            fail(fn.where(wr), f"pixel-wise cost call shape: {ast.unparse(calls[0])}")
    lp.check_bare(bare)
    lp.check_slices(el[1])
    lp.roles = {"disp": disp, "i_right": lp.i_right, "points": lp.points, "left": lp.left_name, "rs": lp.rs,
                "write": [ast.unparse(el[1].lower), ast.unparse(el[1].upper)], "std": getattr(lp, "std_names", None),
                "on_transformed": [lp.left_transformed, lp.right_transformed], "statements": lp.src}
    return lp, out, typ


def masked_loop(fn):
    """cv_masked: for <disp> in cost_volume.coords["disp"].data: ..."""
    body = fn.node.body
    idx = [i for i, s in enumerate(body) if isinstance(s, ast.For) and ast.unparse(s.iter) == DISP_COORDS]
    if len(idx) != 1:
        fail(f"{fn.fname}:{fn.line0}", f"expected one `for disp in {DISP_COORDS}` loop, found {len(idx)}")
    loop = body[idx[0]]
    if loop.orelse or not isinstance(loop.target, ast.Name):
        fail(fn.where(loop), "loop header not supported")
    lp = Loop(fn, idx[0])
    disp = loop.target.id
    if disp in lp.multi or stores(loop.body).get(disp):
        fail(fn.where(loop), "the loop variable is assigned in the loop")
    lp.disp = disp
    fn.env[fn.local(disp, loop)] = (disp, REAL)
    lp.run()
    adds = [x for s in loop.body for x in ast.walk(s) if isinstance(x, ast.AugAssign)]
    tgt = [x for x in adds if isinstance(x.target, ast.Subscript) and ast.unparse(x.target.value) == CV_DATA]
    others = [x for s in loop.body for x in ast.walk(s)
              if isinstance(x, ast.Assign) and any(CV_DATA in ast.unparse(t) for t in x.targets)]
    if len(tgt) != 2 or len(adds) != 2 or others:
        fail(fn.where(loop), f"expected exactly two `{CV_DATA}[:, <cols>, <dsp>] += <mask>` in the loop")
    dsp_nodes = []
    for x in tgt:
        sl = x.target.slice
        if not (isinstance(x.op, ast.Add) and isinstance(sl, ast.Tuple) and len(sl.elts) == 3 and full_slice(sl.elts[0])
                and isinstance(sl.elts[1], ast.Name) and isinstance(sl.elts[2], ast.Name)):
            fail(fn.where(x), f"masked plane shape not supported: {ast.unparse(x.target)}")
        dsp_nodes.append(sl.elts[2])
    if dsp_nodes[0].id != dsp_nodes[1].id:
        fail(fn.where(tgt[1]), "the two mask additions do not go to the same plane")
    dsp = lp.role(dsp_nodes[0], "the plane index dsp")
    v = tgt[1].value   # <right masks>[i_mask].data[:, <cols>]
    if not (isinstance(v, ast.Subscript) and isinstance(v.value, ast.Attribute) and v.value.attr == "data"
            and isinstance(v.value.value, ast.Subscript) and isinstance(v.value.value.value, ast.Name)):
        fail(fn.where(tgt[1]), f"right mask shape not supported: {ast.unparse(v)}")
    im_node = v.value.value.slice
    i_mask = lp.role(im_node, "the index of the right mask")
    v0 = tgt[0].value  # <left mask>.data[:, <cols>]
    if not (isinstance(v0, ast.Subscript) and isinstance(v0.value, ast.Attribute) and v0.value.attr == "data"
            and isinstance(v0.value.value, ast.Name)):
        fail(fn.where(tgt[0]), f"left mask shape not supported: {ast.unparse(v0)}")
    i_right = fn.expr(ast.Name(id=lp.i_right, ctx=ast.Load()))[0]
    lp.check_bare({lp.i_right, dsp_nodes[0].id, im_node.id})
    lp.check_slices(None)
    out = [i_right, f"({lp.points[0]}, {lp.points[1]})", i_mask, dsp]
    typ = ["Z", "((Z * Z) * (Z * Z))", "Z", "Z"]
    lp.roles = {"disp": disp, "i_right": lp.i_right, "points": lp.points, "left": lp.left_name, "rs": lp.rs,
                "i_mask_right": im_node.id, "dsp": dsp_nodes[0].id, "statements": lp.src}
    return lp, out, typ, idx[0]


def out_of_range(fn, after):
    """cv_masked: for <k> in range(nd_): m = np.where(np.logical_or(coords[k] < disp_min, coords[k] > disp_max));
    cost_volume["cost_volume"].data[m[0], m[1], k] = np.nan"""
    body = fn.node.body
    loops = [s for s in body[after + 1:] if isinstance(s, ast.For)]
    if len(loops) != 1:
        fail(f"{fn.fname}:{fn.line0}", f"expected one loop after the loop over the disparities in cv_masked, found {len(loops)}")
    loop = loops[0]
    # between the two loops: only the crop of the grids to the shape of the cost volume
    lp = Loop(fn, body.index(loop))
    for s in body[after + 1:body.index(loop)]:
        if not lp.crop_noop(s):
            fail(fn.where(s), f"statement between the two loops of cv_masked is not a crop of the grids: {ast.unparse(s)[:80]}")
    if not (isinstance(loop.target, ast.Name) and isinstance(loop.iter, ast.Call) and isinstance(loop.iter.func, ast.Name)
            and loop.iter.func.id == "range" and len(loop.iter.args) == 1 and isinstance(loop.iter.args[0], ast.Name)
            and not loop.orelse and len(loop.body) == 2):
        fail(fn.where(loop), "second loop of cv_masked: header / body shape not supported")
    k = loop.target.id
    # range(nd_) where (.., .., nd_) = cost_volume["cost_volume"].shape
    nd = loop.iter.args[0].id
    shp = [s for s in body if isinstance(s, ast.Assign) and isinstance(s.targets[0], ast.Tuple)
           and [getattr(x, "id", None) for x in s.targets[0].elts][-1:] == [nd]]
    if not (len(shp) == 1 and len(shp[0].targets[0].elts) == 3 and ast.unparse(shp[0].value) == "cost_volume['cost_volume'].shape"
            and stores(body).get(nd) == 1):
        fail(fn.where(loop), f"`{nd}` is not the number of planes of the cost volume")
    s1, s2 = loop.body
    if not (isinstance(s1, ast.Assign) and len(s1.targets) == 1 and isinstance(s1.targets[0], ast.Name)
            and isinstance(s1.value, ast.Call) and ast.unparse(s1.value.func) == "np.where" and len(s1.value.args) == 1
            and not s1.value.keywords):
        fail(fn.where(s1), "expected <m> = np.where(<test>)")
    m = s1.targets[0].id
    want = f"{CV_DATA}[{m}[0], {m}[1], {k}]"
    if not (isinstance(s2, ast.Assign) and len(s2.targets) == 1 and ast.unparse(s2.targets[0]) == want
            and ast.unparse(s2.value) == "np.nan"):
        fail(fn.where(s2), f"expected {want} = np.nan")
    sample = f"{DISP_COORDS}[{k}]"

    def elementwise(t):
        if isinstance(t, ast.Call) and ast.unparse(t.func) in ("np.logical_or", "np.logical_and") and len(t.args) == 2 \
                and not t.keywords:
            op = " || " if t.func.attr == "logical_or" else " && "
            return "(" + op.join(elementwise(a) for a in t.args) + ")"
        if isinstance(t, ast.Compare) and len(t.ops) == 1:
            cmp = {ast.Lt: "<?", ast.LtE: "<=?", ast.Gt: ">?", ast.GtE: ">=?"}
            if type(t.ops[0]) not in cmp:
                fail(fn.where(t), f"comparison {type(t.ops[0]).__name__} not supported")

            def side(x):
                if ast.unparse(x) == sample:
                    return "disp"
                if isinstance(x, ast.Name) and fn.is_grid(x.id):
                    return f"(py_real s ({fn.env[x.id][0]} r c))"
                fail(fn.where(x), f"operand is neither the sample of the plane nor a disparity grid: {ast.unparse(x)}")
            a, b = side(t.left), side(t.comparators[0])
            if (a == "disp") == (b == "disp"):
                fail(fn.where(t), "a comparison must relate the sample of the plane and a grid")
            return f"({a} {cmp[type(t.ops[0])]} {b})"
        fail(fn.where(t), f"test shape not supported: {ast.unparse(t)}")

    return elementwise(s1.value.args[0]), {"test": ast.unparse(s1.value.args[0]), "k": k}


# ---------------------------------------------------------------- driver


def cmax_defs(fname, line0, node):
    """SadSsd.compute_cost_volume: the reported maximal cost.  The four extrema are np.amin / np.amax of the selected
    bands; `cmax` is assigned None, then once under `if self._method == "sad"` and once under `== "ssd"`.  The two
    expressions are translated in scaled integers: a radiometric value x is the integer x * u (u = 1 for whole
    values, 4 for multiples of 1/4 ...), an expression carries the power p of u of its scale, int(e) = quot e (u^p)."""
    where = lambda n: f"{fname}:{line0 + getattr(n, 'lineno', 1) - 1}"
    ext = {}
    assigns = []
    for st in ast.walk(node):
        if isinstance(st, ast.Assign) and len(st.targets) == 1 and isinstance(st.targets[0], ast.Name):
            nm = st.targets[0].id
            if nm in ("min_left", "max_left", "min_right", "max_right"):
                want = f"np.{'amin' if nm.startswith('min') else 'amax'}(selected_band_{nm.split('_')[1]})"
                if ast.unparse(st.value) != want or nm in ext:
                    raise TranslationError(f"{where(st)}: {nm} is not {want}: {ast.unparse(st)}")
                ext[nm] = True
            if nm == "cmax":
                assigns.append(st)
        elif isinstance(st, (ast.AugAssign, ast.AnnAssign)) and isinstance(st.target, ast.Name) and \
                st.target.id in ("cmax", "min_left", "max_left", "min_right", "max_right"):
            raise TranslationError(f"{where(st)}: {ast.unparse(st)}")
    if sorted(ext) != ["max_left", "max_right", "min_left", "min_right"]:
        raise TranslationError(f"{fname}:{line0}: extrema assigned: {sorted(ext)}")
    if len(assigns) != 3 or ast.unparse(assigns[0].value) != "None":
        raise TranslationError(f"{fname}:{line0}: cmax is assigned {[ast.unparse(a) for a in assigns]}")
    guarded = {}
    for st in node.body:
        if isinstance(st, ast.If) and ast.unparse(st.test) in ('self._method == "sad"', "self._method == 'sad'",
                                                                'self._method == "ssd"', "self._method == 'ssd'"):
            meth = st.test.comparators[0].value
            if st.orelse or len(st.body) != 1 or st.body[0] not in assigns or meth in guarded:
                raise TranslationError(f"{where(st)}: unexpected branch on the method: {ast.unparse(st)[:120]}")
            guarded[meth] = st.body[0].value
    if sorted(guarded) != ["sad", "ssd"]:
        raise TranslationError(f"{fname}:{line0}: cmax is not assigned once per method at the top level: {sorted(guarded)}")

    def tr(e):
        """-> (Coq term : Z, power of u of its scale)"""
        if isinstance(e, ast.Name) and e.id in ext:
            return {"max_left": "maxl", "min_left": "minl", "max_right": "maxr", "min_right": "minr"}[e.id], 1
        if isinstance(e, ast.Constant) and isinstance(e.value, int) and not isinstance(e.value, bool):
            return f"({e.value})", 0
        if isinstance(e, ast.Attribute) and ast.unparse(e) == "self._window_size":
            return "w", 0
        if isinstance(e, ast.BinOp) and isinstance(e.op, (ast.Sub, ast.Add)):
            (a, pa), (b, pb) = tr(e.left), tr(e.right)
            if pa != pb:
                raise TranslationError(f"{where(e)}: operands of different scales: {ast.unparse(e)}")
            return f"({a} {'-' if isinstance(e.op, ast.Sub) else '+'} {b})", pa
        if isinstance(e, ast.BinOp) and isinstance(e.op, ast.Mult):
            (a, pa), (b, pb) = tr(e.left), tr(e.right)
            return f"({a} * {b})", pa + pb
        if isinstance(e, ast.BinOp) and isinstance(e.op, ast.Pow) and isinstance(e.right, ast.Constant) \
                and isinstance(e.right.value, int) and 1 <= e.right.value <= 4:
            a, pa = tr(e.left)
            return f"({a} ^ {e.right.value})", pa * e.right.value
        if isinstance(e, ast.Call) and isinstance(e.func, ast.Name) and not e.keywords:
            if e.func.id == "abs" and len(e.args) == 1:
                a, pa = tr(e.args[0])
                return f"(Z.abs {a})", pa
            if e.func.id == "max" and len(e.args) == 2:
                (a, pa), (b, pb) = tr(e.args[0]), tr(e.args[1])
                if pa != pb:
                    raise TranslationError(f"{where(e)}: max of different scales: {ast.unparse(e)}")
                return f"(Z.max {a} {b})", pa
            if e.func.id == "int" and len(e.args) == 1:
                a, pa = tr(e.args[0])
                return f"(Z.quot {a} (u ^ {pa}))", 0
        raise TranslationError(f"{where(e)}: expression outside the translated subset: {ast.unparse(e)}")

    out = []
    for meth in ("sad", "ssd"):
        term, p = tr(guarded[meth])
        if p != 0:
            raise TranslationError(f"{where(guarded[meth])}: cmax of {meth} is not an integer (scale u^{p}): "
                                   f"{ast.unparse(guarded[meth])}")
        out.append(f"(* SadSsd.compute_cost_volume, method \"{meth}\": cmax = {ast.unparse(guarded[meth])};\n"
                   f"   a radiometric value x is the integer x * u (maxl = max_left * u ...), w = window_size *)\n"
                   f"Definition {meth}_cmax (u maxl minl maxr minr w : Z) : Z :=\n  {term}.\n")
    return out


def get_fn(cls, name, module):
    f = cls.__dict__.get(name)
    static = isinstance(f, staticmethod)
    if static:
        f = f.__func__
    if not inspect.isfunction(f):
        fail(module.__file__, f"{cls.__name__}.{name} is not a plain method")
    src_file = inspect.getsourcefile(f)
    if not src_file.startswith(REPO):
        fail("import", f"{name} imported from {src_file}, not from {REPO}")
    lines, line0 = inspect.getsourcelines(f)
    src = textwrap.dedent("".join(lines))
    node = ast.parse(src).body[0]
    if not isinstance(node, ast.FunctionDef):
        fail(f"{src_file}:{line0}", f"{name} is not a function")
    decos = [ast.unparse(d) for d in node.decorator_list]
    if decos not in ([], ["staticmethod"]):
        fail(f"{src_file}:{line0}", f"{name} has decorators {decos}")
    if node.args.vararg or node.args.kwarg or node.args.kwonlyargs or node.args.defaults:
        fail(f"{src_file}:{line0}", f"{name}: signature shape not supported")
    args = [a.arg for a in node.args.args]
    return src_file, line0, len(lines), src, node, args, static


def main():
    sys.path.insert(0, REPO)
    import math  # pylint: disable=import-outside-toplevel
    from pandora.matching_cost import matching_cost as mc, sad_ssd, census, zncc  # pylint: disable=import-outside-toplevel
    from pandora import img_tools  # pylint: disable=import-outside-toplevel

    sources = []
    out = []
    sidecar = {}
    bdir = os.path.join(os.path.dirname(os.path.dirname(GEN_DIR)), "build")
    side_path = os.path.join(bdir, "gen_point_interval.json")
    if os.path.exists(side_path):      # never leave the statements of an older source behind a failed translation
        os.remove(side_path)
    AMC = mc.AbstractMatchingCost
    for cls, name in ((sad_ssd.SadSsd, "point_interval"), (census.Census, "point_interval"), (zncc.Zncc, "point_interval"),
                      (sad_ssd.SadSsd, "cv_masked"), (census.Census, "cv_masked"), (zncc.Zncc, "cv_masked"),
                      (sad_ssd.SadSsd, "get_min_max_from_grid"), (census.Census, "get_min_max_from_grid"),
                      (zncc.Zncc, "get_min_max_from_grid")):
        if getattr(cls, name) is not getattr(AMC, name):
            fail(inspect.getsourcefile(cls), f"{cls.__name__} overrides {name}")
    for m in (sad_ssd, census, zncc):
        if m.shift_right_img is not img_tools.shift_right_img:
            fail(m.__file__, "shift_right_img is not pandora.img_tools.shift_right_img")
    if census.census_transform is not img_tools.census_transform:
        fail(census.__file__, "census_transform is not pandora.img_tools.census_transform")
    if mc.shift_right_img is not img_tools.shift_right_img:
        fail(mc.__file__, "shift_right_img is not pandora.img_tools.shift_right_img")
    ceil_floor = getattr(mc, "ceil", None) is math.ceil and getattr(mc, "floor", None) is math.floor

    # ---- point_interval
    f, l0, n, src, node, args, static = get_fn(AMC, "point_interval", mc)
    if static or args != ["self", "img_left", "img_right", "disp"]:
        fail(f"{f}:{l0}", f"point_interval: unexpected signature {args}")
    fn = Fn(f, l0, node, {"s", "img_left_cols", "img_right_cols"} | ({"ceil_floor"} if ceil_floor else set()),
            ["s", "img_left_cols", "img_right_cols"])
    fn.env["disp"] = ("disp", REAL)

    def ret_pi(s):
        txt, t = fn.expr(s.value)
        if t != pair_t(pair_t(INT, INT), pair_t(INT, INT)):
            fail(fn.where(s), "point_interval does not return two pairs of integers")
        return txt
    body = fn.straight(node.body, 1, ret_pi)
    out.append("(* AbstractMatchingCost.point_interval(img_left, img_right, disp); img_left_cols = img_left.sizes[\"col\"],\n"
               "   img_right_cols = img_right.sizes[\"col\"], disp = the disparity times s *)\n"
               "Definition point_interval (s img_left_cols img_right_cols disp : Z) : (Z * Z) * (Z * Z) :=\n" + body)
    sources.append((f, f"lines {l0}-{l0 + n - 1} (point_interval)", sha1_of(src)))

    # ---- get_min_max_from_grid
    f, l0, n, src, node, args, static = get_fn(AMC, "get_min_max_from_grid", mc)
    if not static or args != ["disp_min", "disp_max"]:
        fail(f"{f}:{l0}", f"get_min_max_from_grid: unexpected signature {args}")
    fn = Fn(f, l0, node, {"grid"}, ["ny", "nx"])
    fn.env["disp_min"] = ("disp_min", GRID)
    fn.env["disp_max"] = ("disp_max", GRID)

    def ret_mm(s):
        txt, t = fn.expr(s.value)
        if t != pair_t(INT, INT):
            fail(fn.where(s), "get_min_max_from_grid does not return two integers")
        return txt
    body = fn.straight(node.body, 1, ret_mm)
    out.append("(* AbstractMatchingCost.get_min_max_from_grid(disp_min, disp_max): integer grids of shape (ny, nx);\n"
               "   np.nanmin / np.nanmax of such a grid = grid_min / grid_max of Model/MatchingCost.v *)\n"
               "Definition get_min_max_from_grid (ny nx : Z) (disp_min disp_max : img) : Z * Z :=\n" + body)
    sources.append((f, f"lines {l0}-{l0 + n - 1} (get_min_max_from_grid)", sha1_of(src)))

    # ---- cv_masked
    f, l0, n, src, node, args, static = get_fn(AMC, "cv_masked", mc)
    if static or args != ["self", "img_left", "img_right", "cost_volume", "disp_min", "disp_max"]:
        fail(f"{f}:{l0}", f"cv_masked: unexpected signature {args}")
    fn = Fn(f, l0, node, {"s", "grid"}, ["s", "ny", "nx", "nx_left", "nx_right_shift", "r", "c"])
    fn.left_param, fn.right_param = "img_left", "img_right"
    fn.env["disp_min"] = ("disp_min", GRID)
    fn.env["disp_max"] = ("disp_max", GRID)
    lp, res, typ, at = masked_loop(fn)
    if lp.left_transformed or lp.right_transformed:
        fail(f"{f}:{l0}", "cv_masked calls point_interval on transformed images")
    out.append("(* AbstractMatchingCost.cv_masked, one iteration of `for disp in cost_volume.coords[\"disp\"].data`:\n"
               "   (i_right, (point_p, point_q), i_mask_right, dsp); nx_left = columns of the left image,\n"
               "   nx_right_shift i = columns of the i-th shifted right image *)\n"
               "Definition cv_masked_loop (s ny nx : Z) (disp_min disp_max : img) (nx_left : Z) (nx_right_shift : Z -> Z) (disp : Z)\n"
               f"  : {' * '.join(typ)} :=\n"
               + "".join(f"  {x}\n" for x in lp.lets) + "  (" + ", ".join(res) + ").\n")
    sidecar["cv_masked_loop"] = lp.roles
    test, sidecar["cv_masked_out_of_range"] = out_of_range(fn, at)
    out.append("(* AbstractMatchingCost.cv_masked, the test of `for dsp in range(nd_)` at pixel (r, c) for the sample disp\n"
               "   of the plane: true = the cost is set to NaN *)\n"
               "Definition cv_masked_out_of_range (s : Z) (disp_min disp_max : img) (r c disp : Z) : bool :=\n"
               f"  {test}.\n")
    sources.append((f, f"lines {l0}-{l0 + n - 1} (cv_masked)", sha1_of(src)))

    # ---- the three compute_cost_volume loops
    for cls, mod, gname, want_std, allow in ((sad_ssd.SadSsd, sad_ssd, "sad_ssd_loop", False, {"s"}),
                                             (census.Census, census, "census_loop", False, {"s"}),
                                             (zncc.Zncc, zncc, "zncc_loop", True, {"s", "w"})):
        f, l0, n, src, node, args, static = get_fn(cls, "compute_cost_volume", mod)
        if static or args != ["self", "img_left", "img_right", "cost_volume"]:
            fail(f"{f}:{l0}", f"{cls.__name__}.compute_cost_volume: unexpected signature {args}")
        fn = Fn(f, l0, node, allow, ["s", "w", "nx_left", "nx_right_shift"])
        fn.left_param, fn.right_param = "img_left", "img_right"
        lp, res, typ = compute_loop(fn, want_std)
        sidecar[gname] = lp.roles
        wpar = " w" if "w" in allow else ""
        out.append(f"(* {cls.__name__}.compute_cost_volume, one iteration of `for k, disp in enumerate(cost_volume.coords[\"disp\"].data)`:\n"
                   f"   (i_right, (point_p, point_q), (first, last) column written in plane k{', (p_std, q_std)' if want_std else ''});\n"
                   f"   point_interval is called on {'the census transform of the left image' if lp.left_transformed else 'the left image'}"
                   f" and the {'census transforms of the ' if lp.right_transformed else ''}shifted right images *)\n"
                   f"Definition {gname} (s{wpar} nx_left : Z) (nx_right_shift : Z -> Z) (disp : Z)\n"
                   f"  : {' * '.join(typ)} :=\n"
                   + "".join(f"  {x}\n" for x in lp.lets) + "  (" + ", ".join(res) + ").\n"
                   f"Definition {gname}_on_transformed : bool * bool := "
                   f"({str(lp.left_transformed).lower()}, {str(lp.right_transformed).lower()}).\n")
        sources.append((f, f"lines {l0}-{l0 + n - 1} ({cls.__name__}.compute_cost_volume)", sha1_of(src)))
        if cls is sad_ssd.SadSsd:
            out.extend(cmax_defs(f, l0, node))

    text = ("From Coq Require Import ZArith Bool.\nFrom Pandora Require Import Model.PyArith.\n"
            "From Pandora Require Import Model.MatchingCost.\nOpen Scope Z_scope.\n\n"
            "(* s = subpix; a real x (disparity) is the integer x * s, see Model/PyArith.v;\n"
            "   img, grid_min, grid_max: Model/MatchingCost.v (np.nanmin / np.nanmax of an integer grid) *)\n\n"
            + "\n".join(out))
    path, changed = emit("PointInterval", text, sources)
    # the python text of the translated statements, for the statement-level correspondence of harness/mc_gen.py
    os.makedirs(bdir, exist_ok=True)
    with open(side_path, "w") as fjs:
        json.dump(sidecar, fjs, indent=1)
    print(f"gen_point_interval: {path} {'rewritten' if changed else 'unchanged'} functions={len(sources)}")


if __name__ == "__main__":
    try:
        main()
    except Exception as exc:  # fail closed, one line for the caller
        print(f"TRANSLATION-ERROR gen_point_interval: {type(exc).__name__}: {exc}")
        sys.exit(3)
