"""T-gen: coq/Gen/Window.v from pandora.img_tools.get_window (Python `ast`).

The function body is translated statement by statement into straight-line Z arithmetic:

    x = <expr>                       ->  let x := <expr> in
    if <test>: raise ValueError(..)  ->  if <test> then RaiseOutside else
    if <test>: x = e [; y = e'] [else: ...]
                                     ->  let '(x, y) := if <test> then (...) else (...) in
    return Window(a, b, c, d)        ->  mk_window a b c d      (Model/Dataset.v: the contract of
                                                                 rasterio.windows.Window: negative
                                                                 width/height -> ValueError)

Expressions: integer literals, local names, the parameters `width`/`height`, the ten subscripts
roi["col"|"row"]["first"|"last"], roi["margins"][0..3], + - * (binary), unary -, max/min of two
arguments, one comparison (< <= > >= == !=), `and`/`or`/`not`.
Anything else is a TranslationError naming file:line (fail closed)."""
import ast
import inspect
import sys
import textwrap

from common import emit, fail, sha1_of, REPO

ROI_VARS = {
    ("col", "first"): "col_first", ("col", "last"): "col_last",
    ("row", "first"): "row_first", ("row", "last"): "row_last",
    ("margins", 0): "m_left", ("margins", 1): "m_up", ("margins", 2): "m_right", ("margins", 3): "m_down",
}
PARAMS = ["col_first", "col_last", "row_first", "row_last", "m_left", "m_up", "m_right", "m_down", "width", "height"]
CMP = {ast.Gt: ">?", ast.Lt: "<?", ast.GtE: ">=?", ast.LtE: "<=?", ast.Eq: "=?"}


class Tr:
    def __init__(self, fname, line0):
        self.fname = fname
        self.line0 = line0
        self.locals = set()

    def where(self, node):
        return f"{self.fname}:{self.line0 + getattr(node, 'lineno', 1) - 1}"

    # ---- expressions (Z)
    def const_key(self, node):
        if isinstance(node, ast.Constant) and isinstance(node.value, (str, int)) and not isinstance(node.value, bool):
            return node.value
        if isinstance(node, ast.Index):  # python < 3.9
            return self.const_key(node.value)
        fail(self.where(node), f"subscript key is not a literal: {ast.dump(node)}")

    def expr(self, e):
        if isinstance(e, ast.Constant):
            if isinstance(e.value, bool) or not isinstance(e.value, int):
                fail(self.where(e), f"constant {e.value!r} is not an integer")
            return f"({e.value})" if e.value < 0 else str(e.value)
        if isinstance(e, ast.Name):
            if e.id in self.locals or e.id in ("width", "height"):
                return e.id
            fail(self.where(e), f"unknown name {e.id}")
        if isinstance(e, ast.Subscript):
            inner = e.value
            if isinstance(inner, ast.Subscript) and isinstance(inner.value, ast.Name) and inner.value.id == "roi":
                key = (self.const_key(inner.slice), self.const_key(e.slice))
                if key in ROI_VARS:
                    return ROI_VARS[key]
            fail(self.where(e), f"unknown subscript {ast.unparse(e)}")
        if isinstance(e, ast.BinOp):
            ops = {ast.Add: "+", ast.Sub: "-", ast.Mult: "*"}
            if type(e.op) not in ops:
                fail(self.where(e), f"operator {type(e.op).__name__} not supported")
            return f"({self.expr(e.left)} {ops[type(e.op)]} {self.expr(e.right)})"
        if isinstance(e, ast.UnaryOp) and isinstance(e.op, ast.USub):
            return f"(- {self.expr(e.operand)})"
        if isinstance(e, ast.Call) and isinstance(e.func, ast.Name) and e.func.id in ("max", "min") \
                and len(e.args) == 2 and not e.keywords:
            return f"(Z.{e.func.id} {self.expr(e.args[0])} {self.expr(e.args[1])})"
        fail(self.where(e), f"expression shape not supported: {ast.unparse(e)}")

    # ---- tests (bool)
    def test(self, t):
        if isinstance(t, ast.BoolOp):
            op = " || " if isinstance(t.op, ast.Or) else " && "
            return "(" + op.join(self.test(v) for v in t.values) + ")"
        if isinstance(t, ast.UnaryOp) and isinstance(t.op, ast.Not):
            return f"(negb {self.test(t.operand)})"
        if isinstance(t, ast.Compare) and len(t.ops) == 1:
            a, b = self.expr(t.left), self.expr(t.comparators[0])
            if isinstance(t.ops[0], ast.NotEq):
                return f"(negb ({a} =? {b}))"
            if type(t.ops[0]) not in CMP:
                fail(self.where(t), f"comparison {type(t.ops[0]).__name__} not supported")
            return f"({a} {CMP[type(t.ops[0])]} {b})"
        fail(self.where(t), f"test shape not supported: {ast.unparse(t)}")

    # ---- statements
    def assigns(self, body):
        """a block made only of `name = expr`: returns (names in first-assignment order, coq lets)"""
        names, lets = [], []
        for s in body:
            if not (isinstance(s, ast.Assign) and len(s.targets) == 1 and isinstance(s.targets[0], ast.Name)):
                fail(self.where(s), f"statement not supported inside a branch: {ast.unparse(s)}")
            n = s.targets[0].id
            if n not in self.locals:
                fail(self.where(s), f"branch assigns {n}, which is not defined before the `if`")
            lets.append(f"let {n} := {self.expr(s.value)} in")
            if n not in names:
                names.append(n)
        return names, lets

    def block(self, stmts, ind):
        pad = "  " * ind
        if not stmts:
            fail(f"{self.fname}:{self.line0}", "function falls off its end without a return")
        s, rest = stmts[0], stmts[1:]
        if isinstance(s, ast.Expr) and isinstance(s.value, ast.Constant) and isinstance(s.value.value, str):
            return self.block(rest, ind)  # docstring
        if isinstance(s, ast.Assign):
            if not (len(s.targets) == 1 and isinstance(s.targets[0], ast.Name)):
                fail(self.where(s), f"assignment target not supported: {ast.unparse(s)}")
            n = s.targets[0].id
            if n in PARAMS or n == "roi":
                fail(self.where(s), f"assignment to the parameter {n}")
            rhs = self.expr(s.value)
            self.locals.add(n)
            return f"{pad}let {n} := {rhs} in\n" + self.block(rest, ind)
        if isinstance(s, ast.If):
            tst = self.test(s.test)
            if len(s.body) == 1 and isinstance(s.body[0], ast.Raise):
                r = s.body[0]
                if s.orelse:
                    fail(self.where(s), "`if ...: raise` with an else branch")
                if not (isinstance(r.exc, ast.Call) and isinstance(r.exc.func, ast.Name) and r.exc.func.id == "ValueError"):
                    fail(self.where(r), f"raise of something else than ValueError(...): {ast.unparse(r)}")
                return f"{pad}if {tst} then RaiseOutside else\n" + self.block(rest, ind)
            n1, l1 = self.assigns(s.body)
            n2, l2 = self.assigns(s.orelse)
            names = n1 + [n for n in n2 if n not in n1]
            tup = names[0] if len(names) == 1 else "(" + ", ".join(names) + ")"
            pat = names[0] if len(names) == 1 else "'" + tup
            b1 = " ".join(l1 + [tup])
            b2 = " ".join(l2 + [tup])
            return (f"{pad}let {pat} := if {tst} then ({b1}) else ({b2}) in\n" + self.block(rest, ind))
        if isinstance(s, ast.Return):
            if rest:
                fail(self.where(rest[0]), "statements after return")
            v = s.value
            if not (isinstance(v, ast.Call) and isinstance(v.func, ast.Name) and v.func.id == "Window"
                    and len(v.args) == 4 and not v.keywords):
                fail(self.where(s), f"return of something else than Window(a, b, c, d): {ast.unparse(s)}")
            return f"{pad}mk_window " + " ".join(self.expr(a) for a in v.args) + ".\n"
        fail(self.where(s), f"statement shape not supported: {ast.unparse(s)}")


def main():
    sys.path.insert(0, REPO)
    from pandora import img_tools  # pylint: disable=import-outside-toplevel
    from rasterio.windows import Window  # pylint: disable=import-outside-toplevel

    src_file = inspect.getsourcefile(img_tools)
    if not src_file.startswith(REPO):
        fail("import", f"pandora imported from {src_file}, not from {REPO}")
    if getattr(img_tools, "Window", None) is not Window:
        fail(src_file, "img_tools.Window is not rasterio.windows.Window")
    lines, line0 = inspect.getsourcelines(img_tools.get_window)
    src = textwrap.dedent("".join(lines))
    fn = ast.parse(src).body[0]
    if not isinstance(fn, ast.FunctionDef) or fn.decorator_list:
        fail(f"{src_file}:{line0}", "get_window is not a plain function")
    args = [a.arg for a in fn.args.args]
    if args != ["roi", "width", "height"] or fn.args.vararg or fn.args.kwarg or fn.args.kwonlyargs:
        fail(f"{src_file}:{line0}", f"unexpected signature {args}")
    tr = Tr(src_file, line0)
    body = tr.block(fn.body, 1)
    text = ("From Coq Require Import ZArith Bool.\nFrom Pandora Require Import Model.Dataset.\nOpen Scope Z_scope.\n\n"
            "(* img_tools.get_window(roi, width, height); roi[\"col\"][\"first\"] = col_first, ...,\n"
            "   roi[\"margins\"] = [m_left, m_up, m_right, m_down] *)\n"
            f"Definition get_window ({' '.join(PARAMS)} : Z) : window_result :=\n" + body)
    path, changed = emit("Window", text, [(src_file, f"lines {line0}-{line0 + len(lines) - 1} (get_window)", sha1_of(src))])
    print(f"gen_window: {path} {'rewritten' if changed else 'unchanged'} statements={len(fn.body)}")


if __name__ == "__main__":
    try:
        main()
    except Exception as exc:  # fail closed, one line for the caller
        print(f"TRANSLATION-ERROR gen_window: {type(exc).__name__}: {exc}")
        sys.exit(3)
