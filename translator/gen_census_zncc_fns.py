"""T-gen: coq/Gen/CensusZnccFns.v -- the array code of the census and zncc rasters (Python `ast`).

Translated, statement by statement, into Gallina over the array operations of coq/Lib/NpArr.v:

  Census.popcount32b (staticmethod)       -> popcount32b row : Z          uint32 arithmetic, the truncation explicit
  Census.census_cost                      -> census_cost_cell x y, census_cost_cols p0 q0 j
  img_tools.census_transform              -> census_transform image_im window_size : arr Z
  img_tools.compute_mean_raster           -> compute_mean_raster img_im win_size : arr Q
  img_tools.compute_std_raster            -> compute_std_raster_var img_im win_size : arr Q   (what np.sqrt is applied to)
  AbstractMatchingCost.masks_dilatation   -> masks_dilatation ... : arr bool * (arr bool * arr bool)   (true = NaN)
  the call of masks_dilatation in cv_masked -> cv_masked_masks ...

Reading (all of it fail closed: an unknown statement / expression shape is a TranslationError naming file:line):

* a dataset parameter `img` is its selected band, the 2-D array `img_im`: `img.sizes["row"|"col"]` are its shape,
  the statement `if len(img["im"].shape) > 2: band_index = list(img.band_im.data).index(band); X = f(img["im"].data[
  band_index, :, :]) else: X = f(img["im"].data)` (the two branches must be the same text up to that subscript) is
  `X = f(img_im)`; `xr.Dataset({"im": (["row", "col"], A)}, coords=...)` is the array A;
* integers: literals, names, + - *, unary -, int((a) / b) -> py_int_div (Model/PyArith.v), float(n) as a divisor;
* arrays: np.zeros, np.r_[..], np.c_[..] (a 1-D np.zeros(n) there is the column (n, 1)), np.cumsum / np.nancumsum
  with a literal axis, slices with omitted / integer bounds (Python semantics: negative from the end), a - b, a ** 2,
  a / float(n), a > b, a << n, .astype(np.uint32), x[:, :] += y on a uint32 array, as_strided with a literal shape
  and a strides tuple made of the two strides of the base array, v[:, :, i, j], abs, k * a, a < b, x[np.where(m)] = c,
  np.sqrt only as the returned expression; `for i in range(n):` loops whose state is the set of locals they assign;
* uint32 scalars (popcount32b): `>> n`, `& m`, `| m`, `^ m` keep a uint32; `+`, `-`, `<< n` and the augmented
  assignments are wrapped in u32 (numpy's uint32 arithmetic wraps modulo 2^32).

The names of the Python locals are kept as the names of the Gallina `let`s only; nothing is looked up by name except
the parameters of the translated functions."""
import ast
import inspect
import sys
import textwrap

from common import emit, fail, sha1_of, REPO

RESERVED = {"fst", "snd", "let", "in", "if", "then", "else", "fun", "match", "with", "end", "as", "at", "forall",
            "exists", "Z", "Q", "Type", "Prop", "Set", "bool", "true", "false", "negb", "return", "where", "fix",
            "cofix", "using", "arr", "img", "u32", "map", "zsum", "zrange", "for_range", "popcount32b",
            "census_transform", "compute_mean_raster", "compute_std_raster_var", "masks_dilatation", "Some", "None",
            "StRow", "StCol", "stride", "mod", "list", "nat", "option", "cumsum", "offset", "inside", "dilate",
            "census_cost_cell", "census_cost_cols", "cv_masked_masks", "struct", "struct_", "measure"}

INT = "int"            # Z scalar
U32 = "u32"            # Z scalar holding a uint32
RAT = "rat"            # Q scalar literal
STRIDE = "stride"
ARRZ = "arrz"          # arr Z (integer / float array holding integers)
ARRB01 = "arrb01"      # arr Z holding 0 / 1 (result of a comparison)
ARRI64 = "arri64"      # arr Z, int64 (boolean array shifted)
ARRU32 = "arru32"      # arr Z of dtype uint32
ARRQ = "arrq"          # arr Q
ARRM = "arrm"          # arr bool, a NaN / 0 mask (true = NaN)
ARRBOOL = "arrbool"    # arr bool, a boolean array
ARR4 = "arr4"          # arr4 Z
NONEM = "nonem"        # xr.DataArray(): no array (None : option (arr bool))
OPTM = "optm"          # option (arr bool)
COORDS = "coords"      # np.arange(...): coordinates of an xarray wrapper, never used as data


def coq_name(n):
    return n + "_" if (n in RESERVED or n.startswith("np_") or n.startswith("py_") or n.startswith("a_")) else n


class Fn:
    def __init__(self, fname, line0, node):
        self.fname, self.line0, self.node = fname, line0, node
        self.env = {}          # python name -> (coq text, type) ; type may be ("tuple", [items]) with items (text, type)
        self.datasets = {}     # python name of a dataset -> coq text of its array (type in env under key ("ds", name))
        self.band_param = None
        self.params = set()
        self.dsrec = {}        # python name of a dataset parameter given as a record (NpArr.dataset) -> coq name
        self.msk = {}          # python name of such a dataset -> coq name of its msk array, where it is known to exist
        self.mask_mode = False  # np.zeros(...) builds a NaN / 0 mask

    def where(self, node):
        return f"{self.fname}:{self.line0 + getattr(node, 'lineno', 1) - 1}"

    # ------------------------------------------------------------ helpers
    def is_np(self, e, *names):
        """e is np.<a>.<b>... with the dotted path in names"""
        path = []
        while isinstance(e, ast.Attribute):
            path.append(e.attr)
            e = e.value
        if isinstance(e, ast.Name) and e.id == "np":
            return ".".join(reversed(path)) in names
        return False

    def ds_im_data(self, e):
        """`P["im"].data` for a dataset P -> P, else None"""
        if isinstance(e, ast.Attribute) and e.attr == "data" and isinstance(e.value, ast.Subscript):
            s = e.value
            if isinstance(s.value, ast.Name) and s.value.id in self.datasets and isinstance(s.slice, ast.Constant) \
                    and s.slice.value == "im":
                return s.value.id
        return None

    def ds_msk(self, e):
        """`P["msk"]` for a dataset record P whose msk is known to exist -> coq text of the msk array, else None"""
        if isinstance(e, ast.Subscript) and isinstance(e.value, ast.Name) and e.value.id in self.msk \
                and isinstance(e.slice, ast.Constant) and e.slice.value == "msk":
            return self.msk[e.value.id]
        return None

    def lookup(self, node, name):
        if name not in self.env:
            fail(self.where(node), f"unknown name {name}")
        return self.env[name]

    # ------------------------------------------------------------ integer scalars
    def int_expr(self, e):
        txt, t = self.expr(e)
        if t != INT:
            fail(self.where(e), f"an integer is expected, {ast.unparse(e)} is {t}")
        return txt

    def slice_bound(self, b):
        if b is None:
            return "None"
        return f"(Some {self.int_expr(b)})"

    # ------------------------------------------------------------ expressions
    def expr(self, e):
        w = self.where(e)
        if isinstance(e, ast.Constant):
            if isinstance(e.value, bool) or not isinstance(e.value, int):
                fail(w, f"constant {e.value!r} is not an integer")
            return (f"({e.value})" if e.value < 0 else str(e.value)), INT
        if isinstance(e, ast.Name):
            return self.lookup(e, e.id)
        if isinstance(e, ast.Tuple):
            return None, ("tuple", [self.expr(x) for x in e.elts])
        if isinstance(e, ast.UnaryOp) and isinstance(e.op, ast.USub):
            return f"(- {self.int_expr(e.operand)})", INT
        if isinstance(e, ast.Attribute):
            # P.sizes[...] handled in Subscript; X.strides ; P["im"].data
            ds = self.ds_im_data(e)
            if ds is not None:
                return self.datasets[ds], ARRZ
            m = self.ds_msk(e.value) if e.attr in ("data", "shape") else None
            if m is not None and e.attr == "data":
                return m, ARRZ
            if m is not None and e.attr == "shape":
                return None, ("tuple", [(f"(a_nr {m})", INT), (f"(a_nc {m})", INT)])
            if e.attr == "strides":
                txt, t = self.expr(e.value)
                if t not in (ARRZ, ARRM):
                    fail(w, f"strides of something that is not a 2-D array: {ast.unparse(e)}")
                return None, ("tuple", [("StRow", (STRIDE, txt)), ("StCol", (STRIDE, txt))])
            if e.attr == "shape":
                txt, t = self.expr(e.value)
                if t not in (ARRZ, ARRM, ARRQ, ARRU32):
                    fail(w, f"shape of something that is not a 2-D array: {ast.unparse(e)}")
                return None, ("tuple", [(f"(a_nr {txt})", INT), (f"(a_nc {txt})", INT)])
            if e.attr == "data":       # xarray wrapper of an array already translated
                return self.expr(e.value)
            fail(w, f"attribute not supported: {ast.unparse(e)}")
        if isinstance(e, ast.Subscript):
            return self.subscript(e)
        if isinstance(e, ast.BinOp):
            return self.binop(e)
        if isinstance(e, ast.Compare) and len(e.ops) == 1:
            a, ta = self.expr(e.left)
            b, tb = self.expr(e.comparators[0])
            ops = {ast.Gt: "np_gt", ast.GtE: "np_ge", ast.Lt: "np_lt", ast.LtE: "np_le"}
            if ta == ARRZ and tb == ARRZ and type(e.ops[0]) in ops:
                return f"({ops[type(e.ops[0])]} {a} {b})", ARRB01
            if ta == ARRQ and tb == ARRQ and isinstance(e.ops[0], ast.Lt):
                return f"(npq_lt {a} {b})", ARRBOOL
            if ta == ARRZ and tb == INT and isinstance(e.ops[0], ast.NotEq):
                return f"(np_ne_scalar {a} {b})", ARRBOOL
            if ta == ARRZ and tb == INT and isinstance(e.ops[0], ast.Eq):
                return f"(np_eq_scalar {a} {b})", ARRBOOL
            fail(w, f"comparison not supported: {ast.unparse(e)} ({ta} {type(e.ops[0]).__name__} {tb})")
        if isinstance(e, ast.Call):
            return self.call(e)
        fail(w, f"expression shape not supported: {ast.unparse(e)}")

    def binop(self, e):
        w = self.where(e)
        # 10 ** (-15): a rational literal
        if isinstance(e.op, ast.Pow) and isinstance(e.left, ast.Constant) and isinstance(e.left.value, int) \
                and not isinstance(e.left.value, bool) and e.left.value > 0:
            r = e.right
            if isinstance(r, ast.UnaryOp) and isinstance(r.op, ast.USub) and isinstance(r.operand, ast.Constant) \
                    and isinstance(r.operand.value, int) and 0 < r.operand.value < 40:
                return f"(1 # {e.left.value ** r.operand.value})%Q", RAT
        a, ta = self.expr(e.left)
        if isinstance(e.op, ast.Pow):
            if isinstance(e.right, ast.Constant) and e.right.value == 2 and not isinstance(e.right.value, bool):
                if ta == ARRZ:
                    return f"(np_sq {a})", ARRZ
                if ta == ARRQ:
                    return f"(npq_sq {a})", ARRQ
            fail(w, f"power not supported: {ast.unparse(e)}")
        # a / float(n)
        if isinstance(e.op, ast.Div):
            r = e.right
            if ta == ARRZ and isinstance(r, ast.Call) and isinstance(r.func, ast.Name) and r.func.id == "float" \
                    and len(r.args) == 1 and not r.keywords:
                return f"(np_div_scalar {a} {self.int_expr(r.args[0])})", ARRQ
            fail(w, f"division not supported: {ast.unparse(e)}")
        b, tb = self.expr(e.right)
        if ta == INT and tb == INT:
            ops = {ast.Add: "+", ast.Sub: "-", ast.Mult: "*"}
            if type(e.op) in ops:
                return f"({a} {ops[type(e.op)]} {b})", INT
            fail(w, f"integer operator {type(e.op).__name__} not supported: {ast.unparse(e)}")
        if ta == U32 and tb in (U32, INT):
            return self.u32_op(e, a, b, tb)
        if isinstance(e.op, ast.Sub):
            if ta == ARRZ and tb == ARRZ:
                return f"(np_sub {a} {b})", ARRZ
            if ta == ARRQ and tb == ARRQ:
                return f"(npq_sub {a} {b})", ARRQ
        if isinstance(e.op, ast.Mult) and ta == RAT and tb == ARRQ:
            return f"(npq_scale {a} {b})", ARRQ
        if isinstance(e.op, ast.LShift) and ta == ARRB01 and tb == INT:
            return f"(np_shl {a} {b})", ARRI64
        if isinstance(e.op, ast.BitAnd) and ta == ARRBOOL and tb == ARRBOOL:
            return f"(np_and {a} {b})", ARRBOOL
        fail(w, f"operator not supported: {ast.unparse(e)} ({ta} {type(e.op).__name__} {tb})")

    def u32_const(self, node, txt, t):
        if t == INT:
            if not (isinstance(node, ast.Constant) and 0 <= node.value < 2 ** 32):
                fail(self.where(node), f"uint32 operand is not a literal of 32 bits: {ast.unparse(node)}")
        return txt

    def u32_op(self, e, a, b, tb):
        w = self.where(e)
        b = self.u32_const(e.right, b, tb)
        if isinstance(e.op, (ast.RShift, ast.LShift)):
            if not (tb == INT and 0 <= e.right.value < 32):
                fail(w, f"shift count is not a literal in 0..31: {ast.unparse(e)}")
            if isinstance(e.op, ast.RShift):
                return f"(Z.shiftr {a} {b})", U32
            return f"(u32 (Z.shiftl {a} {b}))", U32
        ops = {ast.BitAnd: "Z.land", ast.BitOr: "Z.lor", ast.BitXor: "Z.lxor"}
        if type(e.op) in ops:
            return f"({ops[type(e.op)]} {a} {b})", U32
        if isinstance(e.op, ast.Add):
            return f"(u32 ({a} + {b}))", U32
        if isinstance(e.op, ast.Sub):
            return f"(u32 ({a} - {b}))", U32
        fail(w, f"uint32 operator {type(e.op).__name__} not supported: {ast.unparse(e)}")

    def slice_parts(self, s, n, node):
        """subscript slice -> list of n items, each ('slice', lo, hi) | ('index', expr)"""
        elts = s.elts if isinstance(s, ast.Tuple) else [s]
        if len(elts) != n:
            fail(self.where(node), f"subscript with {len(elts)} indices where {n} are expected: {ast.unparse(node)}")
        out = []
        for x in elts:
            if isinstance(x, ast.Slice):
                if x.step is not None:
                    fail(self.where(node), f"slice with a step: {ast.unparse(node)}")
                out.append(("slice", x.lower, x.upper))
            else:
                out.append(("index", x))
        return out

    def subscript(self, e):
        w = self.where(e)
        # P.sizes["row"|"col"]
        v = e.value
        if isinstance(v, ast.Attribute) and v.attr == "sizes" and isinstance(v.value, ast.Name) \
                and v.value.id in self.datasets and isinstance(e.slice, ast.Constant) and e.slice.value in ("row", "col"):
            return f"({'a_nr' if e.slice.value == 'row' else 'a_nc'} {self.datasets[v.value.id]})", INT
        if isinstance(v, ast.Attribute) and isinstance(v.value, ast.Name) and v.value.id in self.dsrec \
                and isinstance(e.slice, ast.Constant):
            rec = self.dsrec[v.value.id]
            if v.attr == "sizes" and e.slice.value in ("row", "col"):
                return f"({'a_nr' if e.slice.value == 'row' else 'a_nc'} (d_im {rec}))", INT
            if v.attr == "attrs" and e.slice.value in ("valid_pixels", "no_data_mask"):
                return f"(d_{e.slice.value} {rec})", INT
            fail(w, f"dataset access not supported: {ast.unparse(e)}")
        # np.r_[a, b] / np.c_[a, b]
        if self.is_np(v, "r_", "c_"):
            if not (isinstance(e.slice, ast.Tuple) and len(e.slice.elts) == 2):
                fail(w, f"np.r_ / np.c_ with other than two operands: {ast.unparse(e)}")
            col = v.attr == "c_"
            parts = []
            for x in e.slice.elts:
                if col and isinstance(x, ast.Call) and self.is_np(x.func, "zeros") and len(x.args) == 1 \
                        and not x.keywords and not isinstance(x.args[0], ast.Tuple):
                    parts.append(f"(np_zeros {self.int_expr(x.args[0])} 1)")      # 1-D operand of np.c_: a column
                    continue
                txt, t = self.expr(x)
                if t != ARRZ:
                    fail(w, f"np.r_ / np.c_ operand is not an integer 2-D array: {ast.unparse(x)}")
                parts.append(txt)
            return f"({'np_c_' if col else 'np_r_'} {parts[0]} {parts[1]})", ARRZ
        base, tb = self.expr(v)
        if isinstance(tb, tuple) and tb[0] == "tuple":
            if isinstance(e.slice, ast.Constant) and isinstance(e.slice.value, int) and 0 <= e.slice.value < len(tb[1]):
                return tb[1][e.slice.value]
            fail(w, f"tuple index is not a literal in range: {ast.unparse(e)}")
        if tb == ARR4:
            p = self.slice_parts(e.slice, 4, e)
            if [x[0] for x in p] == ["slice", "slice", "index", "index"] and all(x[1] is None and x[2] is None for x in p[:2]):
                return f"(np_index23 {base} {self.int_expr(p[2][1])} {self.int_expr(p[3][1])})", ARRZ
            fail(w, f"4-D subscript other than v[:, :, i, j]: {ast.unparse(e)}")
        if tb in (ARRZ, ARRQ, ARRM, ARRU32):
            p = self.slice_parts(e.slice, 2, e)
            if all(x[0] == "slice" for x in p):
                if all(x[1] is None and x[2] is None for x in p):
                    return base, tb
                return (f"(np_slice {base} {self.slice_bound(p[0][1])} {self.slice_bound(p[0][2])} "
                        f"{self.slice_bound(p[1][1])} {self.slice_bound(p[1][2])})"), tb
            fail(w, f"2-D subscript with an index: {ast.unparse(e)}")
        fail(w, f"subscript not supported: {ast.unparse(e)} ({tb})")

    def kw(self, c, allowed):
        d = {}
        for k in c.keywords:
            if k.arg not in allowed:
                fail(self.where(c), f"keyword {k.arg} not supported in {ast.unparse(c)}")
            d[k.arg] = k.value
        return d

    def call(self, c):
        w = self.where(c)
        f = c.func
        # int((a) / b)
        if isinstance(f, ast.Name) and f.id == "int" and len(c.args) == 1 and not c.keywords:
            x = c.args[0]
            if isinstance(x, ast.BinOp) and isinstance(x.op, ast.Div):
                return f"(py_int_div {self.int_expr(x.left)} {self.int_expr(x.right)})", INT
            fail(w, f"int(...) of something else than a quotient of two integers: {ast.unparse(c)}")
        if isinstance(f, ast.Name) and f.id == "abs" and len(c.args) == 1 and not c.keywords:
            a, t = self.expr(c.args[0])
            if t == ARRQ:
                return f"(npq_abs {a})", ARRQ
            fail(w, f"abs of {t}: {ast.unparse(c)}")
        if self.is_np(f, "zeros"):
            kws = self.kw(c, {"dtype"})
            if len(c.args) != 1:
                fail(w, f"np.zeros with {len(c.args)} positional arguments")
            _, t = self.expr(c.args[0])
            if not (isinstance(t, tuple) and len(t[1]) == 2 and all(x[1] == INT for x in t[1])):
                fail(w, f"np.zeros of something else than a pair of integers: {ast.unparse(c)}")
            typ = ARRZ
            if self.mask_mode:
                if "dtype" in kws:
                    fail(w, "np.zeros with a dtype where a NaN / 0 mask is built")
                return f"(np_zeros_mask {t[1][0][0]} {t[1][1][0]})", ARRM
            if "dtype" in kws:
                d = kws["dtype"]
                if (isinstance(d, ast.Constant) and d.value == "uint32") or self.is_np(d, "uint32"):
                    typ = ARRU32
                else:
                    fail(w, f"np.zeros dtype not supported: {ast.unparse(d)}")
            return f"(np_zeros {t[1][0][0]} {t[1][1][0]})", typ
        if self.is_np(f, "cumsum", "nancumsum"):
            kws = self.kw(c, {"axis"})
            if len(c.args) != 1 or "axis" not in kws or not isinstance(kws["axis"], ast.Constant) \
                    or kws["axis"].value not in (0, 1) or isinstance(kws["axis"].value, bool):
                fail(w, f"cumsum without a literal axis 0 / 1: {ast.unparse(c)}")
            a, t = self.expr(c.args[0])
            if t != ARRZ:
                fail(w, f"cumsum of {t}")
            return f"(np_cumsum {kws['axis'].value} {a})", ARRZ
        if self.is_np(f, "lib.stride_tricks.as_strided"):
            kws = self.kw(c, {"writeable"})
            if len(c.args) != 3:
                fail(w, "as_strided without exactly (array, shape, strides)")
            a, t = self.expr(c.args[0])
            _, tsh = self.expr(c.args[1])
            _, tst = self.expr(c.args[2])
            if t not in (ARRZ, ARRM) or not (isinstance(tsh, tuple) and isinstance(tst, tuple)):
                fail(w, f"as_strided operands not understood: {ast.unparse(c)}")
            sh, st = tsh[1], tst[1]
            if t == ARRM and len(sh) == 3 and len(st) == 3 and all(x[1] == INT for x in sh) and not kws:
                for x in st:
                    if not (isinstance(x[1], tuple) and x[1][0] == STRIDE and x[1][1] == a):
                        fail(w, f"as_strided: a stride that is not a stride of the base array {a}: {ast.unparse(c)}")
                return None, ("view3", a, [x[0] for x in sh], [x[0] for x in st])
            if len(sh) != 4 or len(st) != 4 or any(x[1] != INT for x in sh):
                fail(w, f"as_strided: a 4-D view with integer dimensions is expected: {ast.unparse(c)}")
            for x in st:
                if not (isinstance(x[1], tuple) and x[1][0] == STRIDE and x[1][1] == a):
                    fail(w, f"as_strided: a stride that is not a stride of the base array {a}: {ast.unparse(c)}")
            if t != ARRZ:
                fail(w, f"4-D as_strided view of a {t}")
            return (f"(np_as_strided4 {a} {' '.join(x[0] for x in sh)} {' '.join(x[0] for x in st)})"), ARR4
        if self.is_np(f, "sum") and len(c.args) == 2 and not c.keywords:
            _, t = self.expr(c.args[0])
            ax = c.args[1]
            if isinstance(t, tuple) and t[0] == "view3" and isinstance(ax, ast.Constant) and ax.value == 2 \
                    and not isinstance(ax.value, bool):
                return f"(np_sum_strided3_nan {t[1]} {' '.join(t[2])} {' '.join(t[3])})", ARRM
            fail(w, f"np.sum of something else than a 3-D as_strided view of a mask over its last axis: {ast.unparse(c)}")
        if self.is_np(f, "arange"):
            return None, COORDS
        if isinstance(f, ast.Name) and f.id == "binary_dilation" and self.mask_mode:
            kws = self.kw(c, {"structure", "iterations"})
            st = kws.get("structure")
            if len(c.args) != 1 or st is None or "iterations" not in kws or not (
                    isinstance(st, ast.Call) and self.is_np(st.func, "ones") and len(st.args) == 1 and not st.keywords):
                fail(w, f"binary_dilation without (array, structure=np.ones((a, b)), iterations=n): {ast.unparse(c)}")
            a, t = self.expr(c.args[0])
            _, tsh = self.expr(st.args[0])
            if t != ARRBOOL or not (isinstance(tsh, tuple) and tsh[0] == "tuple" and len(tsh[1]) == 2
                                    and all(x[1] == INT for x in tsh[1])):
                fail(w, f"binary_dilation operands not understood: {ast.unparse(c)}")
            return f"(np_binary_dilation {a} {tsh[1][0][0]} {tsh[1][1][0]} {self.int_expr(kws['iterations'])})", ARRBOOL
        if isinstance(f, ast.Attribute) and f.attr == "DataArray" and isinstance(f.value, ast.Name) and f.value.id == "xr":
            kws = self.kw(c, {"coords", "dims"})
            if not c.args and not kws:
                return "None", NONEM
            if len(c.args) == 1 and "dims" in kws and ast.unparse(kws["dims"]) == "['row', 'col']":
                a, t = self.expr(c.args[0])
                if t == ARRM:
                    return a, t
            fail(w, f"xr.DataArray of something else than (mask, coords=..., dims=['row', 'col']): {ast.unparse(c)}")
        # X.astype(np.uint32) / X.astype("uint32")
        if isinstance(f, ast.Attribute) and f.attr == "astype" and len(c.args) == 1 and not c.keywords:
            d = c.args[0]
            if not ((isinstance(d, ast.Constant) and d.value == "uint32") or self.is_np(d, "uint32")):
                fail(w, f"astype to something else than uint32: {ast.unparse(c)}")
            a, t = self.expr(f.value)
            if t in (ARRI64, ARRB01, ARRZ):
                return f"(np_astype_u32 {a})", ARRU32
            fail(w, f"astype(uint32) of {t}: {ast.unparse(c)}")
        # xr.Dataset({"im": (["row", "col"], A)}, coords=...)
        if isinstance(f, ast.Attribute) and f.attr == "Dataset" and isinstance(f.value, ast.Name) and f.value.id == "xr":
            self.kw(c, {"coords"})
            if len(c.args) == 1 and isinstance(c.args[0], ast.Dict) and len(c.args[0].keys) == 1:
                k, v = c.args[0].keys[0], c.args[0].values[0]
                if isinstance(k, ast.Constant) and k.value == "im" and isinstance(v, ast.Tuple) and len(v.elts) == 2 \
                        and ast.unparse(v.elts[0]) == "['row', 'col']":
                    a, t = self.expr(v.elts[1])
                    if t in (ARRZ, ARRU32):
                        return a, ("dataset", t)
            fail(w, f"xr.Dataset of something else than {{'im': (['row', 'col'], A)}}: {ast.unparse(c)}")
        # a translated function called on a dataset
        if isinstance(f, ast.Name) and f.id in self.callables:
            return self.callables[f.id](self, c)
        fail(w, f"call not supported: {ast.unparse(c)}")

    callables = {}

    # ------------------------------------------------------------ statements
    def band_if(self, s):
        """the band-selection `if`: returns the equivalent single assignment statement (ast) on the 2-D branch"""
        t = s.test
        ok = (isinstance(t, ast.Compare) and len(t.ops) == 1 and isinstance(t.ops[0], ast.Gt)
              and isinstance(t.comparators[0], ast.Constant) and t.comparators[0].value == 2
              and isinstance(t.left, ast.Call) and isinstance(t.left.func, ast.Name) and t.left.func.id == "len"
              and len(t.left.args) == 1 and isinstance(t.left.args[0], ast.Attribute) and t.left.args[0].attr == "shape")
        ds = None
        if ok:
            x = t.left.args[0].value
            if isinstance(x, ast.Subscript) and isinstance(x.value, ast.Name) and x.value.id in self.datasets \
                    and isinstance(x.slice, ast.Constant) and x.slice.value == "im":
                ds = x.value.id
        if ds is None:
            fail(self.where(s), f"`if` that is not the band selection `if len(P['im'].shape) > 2`: {ast.unparse(s.test)}")
        if len(s.body) != 2 or len(s.orelse) != 1:
            fail(self.where(s), "band selection: expected `band_index = ...; X = ...` / `else: X = ...`")
        b0, b1, o = s.body[0], s.body[1], s.orelse[0]
        if not (isinstance(b0, ast.Assign) and len(b0.targets) == 1 and isinstance(b0.targets[0], ast.Name)):
            fail(self.where(b0), "band selection: first statement is not `band_index = ...`")
        bi = b0.targets[0].id
        if self.band_param is None or ast.unparse(b0.value) != f"list({ds}.band_im.data).index({self.band_param})":
            fail(self.where(b0), f"band index is not list({ds}.band_im.data).index(<band parameter>): {ast.unparse(b0.value)}")
        if not (isinstance(b1, ast.Assign) and isinstance(o, ast.Assign)
                and ast.unparse(b1.targets) == ast.unparse(o.targets)):
            fail(self.where(b1), "band selection: the two branches do not assign the same name")
        t3 = ast.unparse(b1.value)
        t2 = ast.unparse(o.value)
        sub3 = f"{ds}['im'].data[{bi}, :, :]"
        if t3.count(sub3) != 1 or t3.replace(sub3, f"{ds}['im'].data") != t2:
            fail(self.where(b1), f"band selection: the branches differ by more than the band subscript: {t3} / {t2}")
        return o

    def assign_names(self, tgt, val_node, lets, ind):
        pad = "  " * ind
        txt, t = self.expr(val_node)
        if isinstance(tgt, ast.Name):
            self.bind(tgt.id, txt, t, lets, pad, val_node)
            return
        if isinstance(tgt, ast.Tuple) and isinstance(t, tuple) and t[0] == "tuple" and len(t[1]) == len(tgt.elts):
            for x, (xt, xty) in zip(tgt.elts, t[1]):
                if not isinstance(x, ast.Name):
                    fail(self.where(tgt), f"target not supported: {ast.unparse(tgt)}")
                self.bind(x.id, xt, xty, lets, pad, val_node)
            return
        fail(self.where(tgt), f"assignment target not supported: {ast.unparse(tgt)}")

    def bind(self, name, txt, t, lets, pad, node):
        if name in self.params and t != U32:
            fail(self.where(node), f"assignment to the parameter {name}")
        if isinstance(t, tuple) and t[0] == "tuple":
            self.env[name] = (None, t)           # python-level tuple: inlined where it is used
            return
        if (isinstance(t, tuple) and t[0] in (STRIDE, "view3")) or t in (COORDS, NONEM):
            self.env[name] = (txt, t)
            return
        if isinstance(t, tuple) and t[0] == "dataset":
            cn = coq_name(name)
            lets.append(f"{pad}let {cn} := {txt} in")
            self.datasets[name] = cn
            self.env[name] = (cn, t[1])
            return
        cn = coq_name(name)
        lets.append(f"{pad}let {cn} := {txt} in")
        self.env[name] = (cn, t)

    def stmt(self, s, lets, ind):
        pad = "  " * ind
        if isinstance(s, ast.Expr) and isinstance(s.value, ast.Constant) and isinstance(s.value.value, str):
            return
        if isinstance(s, ast.If) and self.mask_mode:
            self.mask_if(s, lets, ind)
            return
        if isinstance(s, ast.If):
            s = self.band_if(s)
        if isinstance(s, ast.Assign):
            if len(s.targets) != 1:
                fail(self.where(s), "chained assignment")
            tgt = s.targets[0]
            # x[np.where(m)] = c   /   x[m] = c
            if isinstance(tgt, ast.Subscript) and isinstance(tgt.value, ast.Name):
                a, t = self.lookup(tgt, tgt.value.id)
                sl = tgt.slice
                if isinstance(sl, ast.Call) and self.is_np(sl.func, "where") and len(sl.args) == 1 and not sl.keywords:
                    sl = sl.args[0]
                if isinstance(sl, (ast.Tuple, ast.Slice)):
                    fail(self.where(s), f"store not supported: {ast.unparse(s)}")
                m, tm = self.expr(sl)
                if tm != ARRBOOL:
                    fail(self.where(s), f"store through something else than a boolean array: {ast.unparse(s)}")
                if t == ARRQ and isinstance(s.value, ast.Constant) and s.value.value == 0 and not isinstance(s.value.value, bool):
                    lets.append(f"{pad}let {a} := np_set_where {m} 0%Q {a} in")
                    return
                if t == ARRM and ast.unparse(s.value) == "np.nan":
                    lets.append(f"{pad}let {a} := np_set_where {m} true {a} in")
                    return
                fail(self.where(s), f"masked store not supported: {ast.unparse(s)}")
            self.assign_names(tgt, s.value, lets, ind)
            return
        if isinstance(s, ast.AugAssign):
            tgt = s.target
            if isinstance(tgt, ast.Name):
                a, t = self.lookup(tgt, tgt.id)
                if tgt.id in self.params and t != U32:
                    fail(self.where(s), f"assignment to the parameter {tgt.id}")
                b, tb = self.expr(s.value)
                if t == INT and tb == INT and isinstance(s.op, (ast.Add, ast.Sub)):
                    lets.append(f"{pad}let {a} := {a} {'+' if isinstance(s.op, ast.Add) else '-'} {b} in")
                    return
                if t == U32 and tb in (U32, INT) and isinstance(s.op, (ast.Add, ast.Sub)):
                    b = self.u32_const(s.value, b, tb)
                    lets.append(f"{pad}let {a} := u32 ({a} {'+' if isinstance(s.op, ast.Add) else '-'} {b}) in")
                    return
                fail(self.where(s), f"augmented assignment not supported: {ast.unparse(s)} ({t}, {tb})")
            if isinstance(tgt, ast.Subscript) and isinstance(tgt.value, ast.Name) and isinstance(s.op, ast.Add):
                a, t = self.lookup(tgt, tgt.value.id)
                p = self.slice_parts(tgt.slice, 2, tgt)
                if t == ARRU32 and all(x[0] == "slice" and x[1] is None and x[2] is None for x in p):
                    b, tb = self.expr(s.value)
                    if tb != ARRU32:
                        fail(self.where(s), f"`+=` of a {tb} into a uint32 array (only a uint32 operand is given a meaning)")
                    lets.append(f"{pad}let {a} := np_iadd_u32 {a} {b} in")
                    return
            fail(self.where(s), f"augmented assignment not supported: {ast.unparse(s)}")
        if isinstance(s, ast.For):
            self.for_loop(s, lets, ind)
            return
        fail(self.where(s), f"statement shape not supported: {ast.unparse(s)[:120]}")

    def top_names(self, stmts):
        out = []
        for x in stmts:
            if isinstance(x, ast.Assign) and len(x.targets) == 1:
                tg = x.targets[0]
                for n in (tg.elts if isinstance(tg, ast.Tuple) else [tg]):
                    if isinstance(n, ast.Name) and n.id not in out:
                        out.append(n.id)
        return out

    def branch(self, stmts, name, ind, want):
        saved = dict(self.env)
        lets = []
        for b in stmts:
            self.stmt(b, lets, ind)
        txt, t = self.env.get(name, (None, None))
        self.env = saved
        if t != want:
            fail(self.where(stmts[0]), f"the branch leaves {name} as a {t}, a {want} is expected")
        return lets, txt

    def mask_if(self, s, lets, ind):
        """`if "msk" in P.data_vars: ... else: ...` (one array defined by both branches) and `if <integer test>: ...`
        (one optional array, None before, defined by the branch)"""
        pad = "  " * ind
        t = s.test
        if isinstance(t, ast.Compare) and len(t.ops) == 1 and isinstance(t.ops[0], ast.In) \
                and isinstance(t.left, ast.Constant) and t.left.value == "msk":
            d = t.comparators[0]
            if not (isinstance(d, ast.Attribute) and d.attr == "data_vars" and isinstance(d.value, ast.Name)
                    and d.value.id in self.dsrec) or not s.orelse:
                fail(self.where(s), f"test not supported: {ast.unparse(t)}")
            ds = d.value.id
            common = [n for n in self.top_names(s.body) if n in self.top_names(s.orelse)]
            if len(common) != 1:
                fail(self.where(s), f"the two branches of `if 'msk' in {ds}.data_vars` define {common}, one array is expected")
            name = common[0]
            mv = f"{self.dsrec[ds]}_msk"
            self.msk[ds] = mv
            l1, x1 = self.branch(s.body, name, ind + 2, ARRM)
            del self.msk[ds]
            l2, x2 = self.branch(s.orelse, name, ind + 2, ARRM)
            cn = coq_name(name)
            lets.append(f"{pad}let {cn} := match d_msk {self.dsrec[ds]} with")
            lets.append(f"{pad}  | Some {mv} =>")
            lets.extend(l1 + [f"{pad}    {x1}"])
            lets.append(f"{pad}  | None =>")
            lets.extend(l2 + [f"{pad}    {x2}"])
            lets.append(f"{pad}  end in")
            self.env[name] = (cn, ARRM)
            return
        if isinstance(t, ast.Compare) and len(t.ops) == 1 and isinstance(t.ops[0], (ast.NotEq, ast.Eq)) and not s.orelse:
            a, b = self.int_expr(t.left), self.int_expr(t.comparators[0])
            tst = f"({a} =? {b})" if isinstance(t.ops[0], ast.Eq) else f"(negb ({a} =? {b}))"
            outer = [n for n in self.top_names(s.body) if n in self.env]
            if len(outer) != 1 or self.env[outer[0]][1] != NONEM:
                fail(self.where(s), f"`if {ast.unparse(t)}` redefines {outer}: one array that is xr.DataArray() before is expected")
            name = outer[0]
            l1, x1 = self.branch(s.body, name, ind + 1, ARRM)
            cn = coq_name(name)
            lets.append(f"{pad}let {cn} := if {tst} then")
            lets.extend(l1 + [f"{pad}  Some {x1}", f"{pad}else None in"])
            self.env[name] = (cn, OPTM)
            return
        fail(self.where(s), f"`if` not supported here: {ast.unparse(t)}")

    def for_loop(self, s, lets, ind):
        pad = "  " * ind
        it = s.iter
        if s.orelse or not (isinstance(s.target, ast.Name) and isinstance(it, ast.Call) and isinstance(it.func, ast.Name)
                            and it.func.id == "range" and len(it.args) == 1 and not it.keywords):
            fail(self.where(s), f"loop that is not `for i in range(n)`: {ast.unparse(s)[:80]}")
        n = self.int_expr(it.args[0])
        # the state: the locals stored by the body (all must exist before the loop)
        state = []
        for x in ast.walk(ast.Module(body=s.body, type_ignores=[])):
            nm = None
            if isinstance(x, (ast.Assign, ast.AugAssign)):
                tg = x.targets[0] if isinstance(x, ast.Assign) else x.target
                while isinstance(tg, ast.Subscript):
                    tg = tg.value
                if not isinstance(tg, ast.Name):
                    fail(self.where(x), f"store not supported in a loop: {ast.unparse(x)}")
                nm = tg.id
            elif isinstance(x, ast.For):
                nm = None
                if isinstance(x.target, ast.Name) and x.target.id in self.env:
                    fail(self.where(x), f"loop variable {x.target.id} shadows a local")
            if nm is not None and nm not in state:
                state.append(nm)
        for nm in state:
            if nm not in self.env or self.env[nm][0] is None:
                fail(self.where(s), f"the loop assigns {nm}, which is not an array / integer defined before the loop")
        if s.target.id in self.env or s.target.id in state:
            fail(self.where(s), f"loop variable {s.target.id} shadows a local")
        if not state:
            fail(self.where(s), "loop without effect on the locals")
        before = {nm: self.env[nm] for nm in state}
        tup = ", ".join(self.env[nm][0] for nm in state)
        pat = self.env[state[0]][0] if len(state) == 1 else f"'({tup})"
        res = self.env[state[0]][0] if len(state) == 1 else f"({tup})"
        iv = coq_name(s.target.id)
        self.env[s.target.id] = (iv, INT)
        lets.append(f"{pad}let {pat} := for_range {n} (fun {iv} {pat} =>")
        for b in s.body:
            self.stmt(b, lets, ind + 1)
        lets.append(f"{pad}  {res}) {res} in")
        del self.env[s.target.id]
        for nm in state:
            if self.env[nm] != before[nm]:
                fail(self.where(s), f"the loop changes the type of {nm}")

    def body(self, stmts, ind, ret):
        lets = []
        for i, s in enumerate(stmts):
            if isinstance(s, ast.Return):
                if i != len(stmts) - 1:
                    fail(self.where(s), "statements after return")
                return "\n".join(lets + ["  " * ind + ret(s)])
            self.stmt(s, lets, ind)
        fail(f"{self.fname}:{self.line0}", "function falls off its end without a return")


def get_plain(f, name, module_file, allow_static=False):
    if isinstance(f, staticmethod):
        if not allow_static:
            fail(module_file, f"{name} is a staticmethod")
        f = f.__func__
    if not inspect.isfunction(f):
        fail(module_file, f"{name} is not a plain function")
    src_file = inspect.getsourcefile(f)
    if not src_file.startswith(REPO):
        fail("import", f"{name} imported from {src_file}, not from {REPO}")
    lines, line0 = inspect.getsourcelines(f)
    src = textwrap.dedent("".join(lines))
    node = ast.parse(src).body[0]
    if not isinstance(node, ast.FunctionDef):
        fail(f"{src_file}:{line0}", f"{name} is not a function")
    decos = [ast.unparse(d) for d in node.decorator_list]
    if decos not in ([], ["staticmethod"]):
        fail(f"{src_file}:{line0}", f"{name} has decorators {decos}")
    if node.args.vararg or node.args.kwarg or node.args.kwonlyargs:
        fail(f"{src_file}:{line0}", f"{name}: signature shape not supported")
    args = [a.arg for a in node.args.args]
    defaults = [ast.unparse(d) for d in node.args.defaults]
    return src_file, line0, len(lines), src, node, args, defaults


def dataset_fn(fn_obj, name, n_int_params):
    """a function f(dataset, <int>, band=None): returns (Fn, args, source tuple)"""
    f, l0, n, src, node, args, defaults = get_plain(fn_obj, name, "pandora/img_tools.py")
    if len(args) != 3 or defaults != ["None"]:
        fail(f"{f}:{l0}", f"{name}: expected (dataset, size, band=None), got {args} defaults {defaults}")
    fn = Fn(f, l0, node)
    ds, size, band = args
    fn.params = set(args)
    fn.datasets[ds] = ds.rstrip("_") + "_im"
    fn.env[size] = (coq_name(size), INT)
    fn.band_param = band
    return fn, args, (f, f"lines {l0}-{l0 + n - 1} ({name})", sha1_of(src))


def call_dataset_fn(gname, n_pos):
    """translation of a call `g(P, n[, band])` of a translated dataset function"""
    def tr(fn, c):
        if c.keywords or not 2 <= len(c.args) <= 3:
            fail(fn.where(c), f"call of {gname} with unexpected arguments: {ast.unparse(c)}")
        p = c.args[0]
        if not (isinstance(p, ast.Name) and p.id in fn.datasets):
            fail(fn.where(c), f"{gname} called on something that is not a dataset: {ast.unparse(c)}")
        if len(c.args) == 3 and not (isinstance(c.args[2], ast.Name) and c.args[2].id == fn.band_param):
            fail(fn.where(c), f"{gname} called with a band that is not the band parameter: {ast.unparse(c)}")
        return f"({gname} {fn.datasets[p.id]} {fn.int_expr(c.args[1])})", ARRQ
    return tr


def main():
    sys.path.insert(0, REPO)
    from pandora import img_tools  # pylint: disable=import-outside-toplevel
    from pandora.matching_cost import census  # pylint: disable=import-outside-toplevel

    out, sources = [], []

    # ---------------------------------------------------------------- popcount32b
    f, l0, n, src, node, args, defaults = get_plain(census.Census.__dict__.get("popcount32b"), "Census.popcount32b",
                                                    census.__file__, allow_static=True)
    if not isinstance(census.Census.__dict__.get("popcount32b"), staticmethod) or len(args) != 1 or defaults:
        fail(f"{f}:{l0}", f"popcount32b: expected a staticmethod of one argument, got {args}")
    fn = Fn(f, l0, node)
    fn.params = set(args)
    x = coq_name(args[0])
    fn.env[args[0]] = (x, U32)

    def ret_u32(s):
        txt, t = fn.expr(s.value)
        if t != U32:
            fail(fn.where(s), f"popcount32b returns a {t}")
        return txt + "."
    body = fn.body(node.body, 1, ret_u32)
    out.append("(* Census.popcount32b(row), applied by census_cost to the rows of a uint32 array: every operation is numpy's\n"
               "   uint32 arithmetic, which wraps modulo 2^32 (u32); >> and & of uint32 values need no truncation *)\n"
               f"Definition popcount32b ({x} : Z) : Z :=\n{body}\n")
    sources.append((f, f"lines {l0}-{l0 + n - 1} (Census.popcount32b)", sha1_of(src)))

    # ---------------------------------------------------------------- census_cost
    f, l0, n, src, node, args, defaults = get_plain(census.Census.__dict__.get("census_cost"), "Census.census_cost",
                                                    census.__file__)
    if len(args) != 5 or args[0] != "self" or defaults:
        fail(f"{f}:{l0}", f"census_cost: unexpected signature {args}")
    _, pp, pq, il, ir = args
    stmts = [s for s in node.body if not (isinstance(s, ast.Expr) and isinstance(s.value, ast.Constant))]
    if len(stmts) != 2 or not isinstance(stmts[0], ast.Assign) or not isinstance(stmts[1], ast.Return) \
            or len(stmts[0].targets) != 1 or not isinstance(stmts[0].targets[0], ast.Name):
        fail(f"{f}:{l0}", "census_cost: expected `x = <xor>; return list(map(self.popcount32b, x))`")
    xname = stmts[0].targets[0].id
    want = (f"{il}['im'].data[:, {pp}[0]:{pp}[1]].astype('uint32') ^ "
            f"{ir}['im'].data[:, {pq}[0]:{pq}[1]].astype('uint32')")
    if ast.unparse(stmts[0].value) != want:
        fail(f"{f}:{l0 + stmts[0].lineno - 1}", f"census_cost: the xor is not `{want}` but `{ast.unparse(stmts[0].value)}`")
    if ast.unparse(stmts[1].value) != f"list(map(self.popcount32b, {xname}))":
        fail(f"{f}:{l0 + stmts[1].lineno - 1}", f"census_cost returns {ast.unparse(stmts[1].value)}")
    out.append("(* Census.census_cost(point_p, point_q, img_left, img_right): element j of a row of the result, for the value x\n"
               "   of the left transform at column point_p[0] + j and the value y of the right transform at column\n"
               "   point_q[0] + j (the two slices [:, p0:p1] and [:, q0:q1], both cast to uint32, xor-ed, popcount32b mapped) *)\n"
               "Definition census_cost_cell (x y : Z) : Z := popcount32b (Z.lxor (u32 x) (u32 y)).\n"
               "Definition census_cost_cols (point_p_0 point_q_0 j : Z) : Z * Z := (point_p_0 + j, point_q_0 + j).\n")
    sources.append((f, f"lines {l0}-{l0 + n - 1} (Census.census_cost)", sha1_of(src)))

    # ---------------------------------------------------------------- census_transform
    fn, args, srcinfo = dataset_fn(img_tools.census_transform, "census_transform", 1)

    def ret_arr(types, fnx):
        def r(s):
            txt, t = fnx.expr(s.value)
            if t not in types:
                fail(fnx.where(s), f"returns a {t}, expected one of {types}")
            return txt + "."
        return r
    body = fn.body(fn.node.body, 1, ret_arr((ARRU32,), fn))
    out.append(f"(* img_tools.census_transform({', '.join(args)}): {fn.datasets[args[0]]} = the selected band of the image *)\n"
               f"Definition census_transform ({fn.datasets[args[0]]} : arr Z) ({coq_name(args[1])} : Z) : arr Z :=\n{body}\n")
    sources.append(srcinfo)

    # ---------------------------------------------------------------- compute_mean_raster
    fn, args, srcinfo = dataset_fn(img_tools.compute_mean_raster, "compute_mean_raster", 1)
    body = fn.body(fn.node.body, 1, ret_arr((ARRQ,), fn))
    out.append(f"(* img_tools.compute_mean_raster({', '.join(args)}): {fn.datasets[args[0]]} = the selected band (integer radiometry) *)\n"
               f"Definition compute_mean_raster ({fn.datasets[args[0]]} : arr Z) ({coq_name(args[1])} : Z) : arr Q :=\n{body}\n")
    sources.append(srcinfo)

    # ---------------------------------------------------------------- compute_std_raster
    Fn.callables = {"compute_mean_raster": call_dataset_fn("compute_mean_raster", 2)}
    if img_tools.compute_std_raster.__globals__.get("compute_mean_raster") is not img_tools.compute_mean_raster:
        fail("pandora/img_tools.py", "compute_std_raster does not call img_tools.compute_mean_raster")
    fn, args, srcinfo = dataset_fn(img_tools.compute_std_raster, "compute_std_raster", 1)

    def ret_sqrt(s):
        v = s.value
        if not (isinstance(v, ast.Call) and fn.is_np(v.func, "sqrt") and len(v.args) == 1 and not v.keywords):
            fail(fn.where(s), f"compute_std_raster does not return np.sqrt(<array>): {ast.unparse(s)}")
        txt, t = fn.expr(v.args[0])
        if t != ARRQ:
            fail(fn.where(s), f"np.sqrt of a {t}")
        return txt + "."
    body = fn.body(fn.node.body, 1, ret_sqrt)
    Fn.callables = {}
    out.append(f"(* img_tools.compute_std_raster({', '.join(args)}) returns np.sqrt of this array (the square root is outside\n"
               "   the rational model) *)\n"
               f"Definition compute_std_raster_var ({fn.datasets[args[0]]} : arr Z) ({coq_name(args[1])} : Z) : arr Q :=\n{body}\n")
    sources.append(srcinfo)

    # ---------------------------------------------------------------- masks_dilatation
    import scipy.ndimage  # pylint: disable=import-outside-toplevel
    from pandora.matching_cost import matching_cost as mc  # pylint: disable=import-outside-toplevel
    AMC = mc.AbstractMatchingCost
    if mc.binary_dilation is not scipy.ndimage.binary_dilation:
        fail(mc.__file__, "matching_cost.binary_dilation is not scipy.ndimage.binary_dilation")
    f, l0, n, src, node, args, defaults = get_plain(AMC.__dict__.get("masks_dilatation"), "masks_dilatation", mc.__file__,
                                                    allow_static=True)
    if not isinstance(AMC.__dict__.get("masks_dilatation"), staticmethod) or len(args) != 4 or defaults:
        fail(f"{f}:{l0}", f"masks_dilatation: expected a staticmethod (left, right, window_size, subp), got {args}")
    fn = Fn(f, l0, node)
    fn.params = set(args)
    fn.mask_mode = True
    fn.dsrec = {args[0]: coq_name(args[0]), args[1]: coq_name(args[1])}
    fn.env[args[2]] = (coq_name(args[2]), INT)
    fn.env[args[3]] = (coq_name(args[3]), INT)

    def ret_masks(s):
        v = s.value
        if not (isinstance(v, ast.Tuple) and len(v.elts) == 2 and isinstance(v.elts[1], ast.List) and len(v.elts[1].elts) == 2):
            fail(fn.where(s), f"masks_dilatation does not return (left, [right, right_shift]): {ast.unparse(s)}")
        (a, ta), (b, tb), (c_, tc) = fn.expr(v.elts[0]), fn.expr(v.elts[1].elts[0]), fn.expr(v.elts[1].elts[1])
        if (ta, tb, tc) != (ARRM, ARRM, OPTM):
            fail(fn.where(s), f"masks_dilatation returns ({ta}, [{tb}, {tc}])")
        return f"({a}, ({b}, {c_}))."
    body = fn.body(node.body, 1, ret_masks)
    pm = [coq_name(a) for a in args]
    out.append(f"(* AbstractMatchingCost.masks_dilatation({', '.join(args)}): the masks are NaN / 0 arrays, here booleans\n"
               "   (true = NaN); the third one exists only when subp != 1 *)\n"
               f"Definition masks_dilatation ({pm[0]} {pm[1]} : dataset) ({pm[2]} {pm[3]} : Z)\n"
               f"  : arr bool * (arr bool * option (arr bool)) :=\n{body}\n")
    sources.append((f, f"lines {l0}-{l0 + n - 1} (masks_dilatation)", sha1_of(src)))

    # ---------------------------------------------------------------- the call of masks_dilatation in cv_masked
    f, l0, n, src, node, args, defaults = get_plain(AMC.__dict__.get("cv_masked"), "cv_masked", mc.__file__)
    if args[:3] != ["self", "img_left", "img_right"] or defaults:
        fail(f"{f}:{l0}", f"cv_masked: unexpected signature {args}")
    calls = [x for x in ast.walk(node) if isinstance(x, ast.Call) and isinstance(x.func, ast.Attribute)
             and x.func.attr == "masks_dilatation"]
    if len(calls) != 1 or ast.unparse(calls[0].func) != "self.masks_dilatation" or calls[0].keywords or len(calls[0].args) != 4:
        fail(f"{f}:{l0}", "cv_masked: expected exactly one call self.masks_dilatation(a, b, c, d)")
    call = calls[0]
    top = [x for x in node.body if isinstance(x, ast.Assign) and x.value is call]
    if len(top) != 1 or not (isinstance(top[0].targets[0], ast.Tuple) and len(top[0].targets[0].elts) == 2):
        fail(f"{f}:{l0 + call.lineno - 1}", "cv_masked: the masks are not bound by a top-level `a, b = self.masks_dilatation(...)`")
    fn = Fn(f, l0, node)
    fn.env["img_left"] = ("img_left", "dataset_rec")
    fn.env["img_right"] = ("img_right", "dataset_rec")
    cargs = []
    for i, x in enumerate(call.args):
        if i < 2:
            if not (isinstance(x, ast.Name) and x.id in ("img_left", "img_right")):
                fail(fn.where(x), f"masks_dilatation is called on something else than the two images: {ast.unparse(x)}")
            cargs.append(x.id)
        else:
            # an integer expression of self._window_size / self._subpix
            class Sub(ast.NodeTransformer):
                def visit_Attribute(self, nd):  # pylint: disable=invalid-name
                    if ast.unparse(nd) == "self._window_size":
                        return ast.copy_location(ast.Name(id="self_window_size", ctx=ast.Load()), nd)
                    if ast.unparse(nd) == "self._subpix":
                        return ast.copy_location(ast.Name(id="self_subpix", ctx=ast.Load()), nd)
                    return nd
            fn.env["self_window_size"] = ("self_window_size", INT)
            fn.env["self_subpix"] = ("self_subpix", INT)
            cargs.append(fn.int_expr(Sub().visit(x)))
    out.append("(* AbstractMatchingCost.cv_masked: `mask_left, mask_right = self.masks_dilatation(...)`; self_window_size =\n"
               "   self._window_size, self_subpix = self._subpix *)\n"
               "Definition cv_masked_masks (img_left img_right : dataset) (self_window_size self_subpix : Z)\n"
               "  : arr bool * (arr bool * option (arr bool)) :=\n"
               f"  masks_dilatation {' '.join(cargs)}.\n")
    sources.append((f, f"lines {l0}-{l0 + n - 1} (cv_masked)", sha1_of(src)))

    text = ("From Coq Require Import ZArith Bool QArith.\nFrom Pandora Require Import Model.PyArith Lib.NpArr.\n"
            "Open Scope Z_scope.\n\n" + "\n".join(out))
    path, changed = emit("CensusZnccFns", text, sources)
    print(f"gen_census_zncc_fns: {path} {'rewritten' if changed else 'unchanged'} functions={len(sources)}")


if __name__ == "__main__":
    try:
        main()
    except Exception as exc:  # fail closed, one line for the caller
        print(f"TRANSLATION-ERROR gen_census_zncc_fns: {type(exc).__name__}: {exc}")
        sys.exit(3)
