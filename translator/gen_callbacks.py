"""T-gen: coq/Gen/Callbacks.v -- the call structure of the run callbacks of PandoraMachine.

For every callback registered by the run table (<kind>_run, matching_cost_prepare,
run_multiscale) the body is read with Python `ast` and turned into a list of segments
   (left block, right block, guarded?)
where a block is the ordered list of calls  (callee, argument slots, output slots)  and
"guarded" says that the right block sits under `if self.right_disp_map == "cross_checking_accurate":`.
Slots are the machine attributes holding data (images, cost volumes, disparity datasets,
intervals, pyramids).  Everything the translator does not recognise is a TranslationError."""
import ast
import inspect
import sys
import textwrap

from common import emit, fail, sha1_of, REPO

SLOTS = {
    "left_img": "Limg", "right_img": "Rimg", "left_cv": "Lcv", "right_cv": "Rcv",
    "left_disparity": "Ldisp", "right_disparity": "Rdisp",
    "disp_min": "Lmin", "disp_max": "Lmax", "right_disp_min": "Rmin", "right_disp_max": "Rmax",
    "dmin_user": "Lumin", "dmax_user": "Lumax", "dmin_user_right": "Rumin", "dmax_user_right": "Rumax",
    "img_left_pyramid": "Lpyr", "img_right_pyramid": "Rpyr",
}
# attributes that are configuration / bookkeeping, identical in a run and in its mirrored run
CONFIG_ATTRS = {"scale_factor", "step", "num_scales", "current_scale", "matching_cost_"}
CALLEES = {
    "allocate_cost_volume": "FAllocate", "validity_mask": "FValidityMask", "compute_cost_volume": "FComputeCv",
    "cv_masked": "FCvMasked", "cost_volume_aggregation": "FAggregate", "optimize_cv": "FOptimize",
    "compute_semantic_segmentation": "FSegment", "to_disp": "FToDisp", "filter_disparity": "FFilter",
    "subpixel_refinement": "FRefine", "disparity_checking": "FCrossCheck", "interpolated_disparity": "FInterpolate",
    "confidence_prediction": "FConfidence", "disparity_range": "FDisparityRange", "pop": "FPop",
}
CALLBACKS = [
    ("matching_cost_prepare", "CbMcPrepare"), ("matching_cost_run", "CbMcRun"), ("aggregation_run", "CbAgg"),
    ("semantic_segmentation_run", "CbSeg"), ("optimization_run", "CbOpt"), ("disparity_run", "CbDsp"),
    ("filter_run", "CbFlt"), ("refinement_run", "CbRef"), ("validation_run", "CbVal"),
    ("run_multiscale", "CbMsc"), ("cost_volume_confidence_run", "CbCvc"),
]


def self_attr(node):
    if isinstance(node, ast.Attribute) and isinstance(node.value, ast.Name) and node.value.id == "self":
        return node.attr
    return None


def is_guard(test):
    return (isinstance(test, ast.Compare) and self_attr(test.left) == "right_disp_map" and len(test.ops) == 1
            and isinstance(test.ops[0], ast.Eq) and isinstance(test.comparators[0], ast.Constant)
            and test.comparators[0].value == "cross_checking_accurate")


def only_config(node, locals_cfg):
    """expression made of cfg / input_step / constants / configuration attributes only"""
    for sub in ast.walk(node):
        if isinstance(sub, ast.Name) and sub.id not in ({"self", "cfg", "input_step", "len", "_", "__"} | locals_cfg):
            return False
        a = self_attr(sub)
        if a is not None and a not in CONFIG_ATTRS:
            return False
    return True


def slots_of(node, where, locals_cfg):
    """data slots read by an argument expression (tuples flattened); [] for configuration-only expressions"""
    if isinstance(node, ast.Tuple):
        out = []
        for e in node.elts:
            out += slots_of(e, where, locals_cfg)
        return out
    if isinstance(node, ast.Starred) or isinstance(node, ast.keyword):
        return slots_of(node.value, where, locals_cfg)
    a = self_attr(node)
    if a is not None:
        if a in SLOTS:
            return [SLOTS[a]]
        if a in CONFIG_ATTRS:
            return []
        fail(where, f"unknown machine attribute self.{a}")
    if only_config(node, locals_cfg):
        return []
    # self.left_img.sizes["row"] and the like: a read of the slot
    reads = [SLOTS[self_attr(s)] for s in ast.walk(node) if self_attr(s) in SLOTS]
    unknown = [self_attr(s) for s in ast.walk(node) if self_attr(s) is not None and self_attr(s) not in SLOTS
               and self_attr(s) not in CONFIG_ATTRS]
    if unknown:
        fail(where, f"unknown machine attributes {unknown}")
    if reads:
        return reads
    fail(where, f"unknown argument expression {ast.dump(node)[:100]}")


def tr_call(call, targets, where, objs, locals_cfg):
    """one call -> (callee, args, outs) text, or None for calls without data effect"""
    f = call.func
    if isinstance(f, ast.Attribute):
        name = f.attr
        recv = f.value
        if name not in CALLEES:
            fail(where, f"unknown callee .{name}")
        args = []
        # receiver: a step object built from cfg (local), self.matching_cost_, or a pyramid slot (pop)
        if isinstance(recv, ast.Name):
            if recv.id not in objs:
                fail(where, f"call on unknown object {recv.id}")
        elif self_attr(recv) == "matching_cost_":
            pass
        elif self_attr(recv) in SLOTS:
            args.append(SLOTS[self_attr(recv)])
        else:
            fail(where, f"call on unknown receiver {ast.dump(recv)[:80]}")
        for a in call.args:
            args += slots_of(a, where, locals_cfg)
        if call.keywords:
            fail(where, "keyword arguments in a step call")
        return (CALLEES[name], args, targets)
    if isinstance(f, ast.Name) and f.id in CALLEES:  # validity_mask(...)
        args = []
        for a in call.args:
            args += slots_of(a, where, locals_cfg)
        return (CALLEES[f.id], args, targets)
    fail(where, f"unknown call {ast.dump(f)[:80]}")


def tr_block(stmts, where, objs, locals_cfg, allow_guard):
    """list of statements -> list of items: ('call', (callee,args,outs)) | ('guard', [calls]) | ('cfgif', [calls])"""
    items = []
    for st in stmts:
        w = f"{where}:{getattr(st, 'lineno', '?')}"
        if isinstance(st, ast.Expr) and isinstance(st.value, ast.Constant):
            continue  # docstring
        if isinstance(st, ast.Expr) and isinstance(st.value, ast.Call):
            c = st.value
            if isinstance(c.func, ast.Attribute) and isinstance(c.func.value, ast.Name) and c.func.value.id == "logging":
                continue
            items.append(("call", tr_call(c, [], w, objs, locals_cfg)))
            continue
        if isinstance(st, ast.Assign) and len(st.targets) == 1:
            tgt = st.targets[0]
            # cfg["pipeline"][input_step]["indicator"] = ...   (configuration only)
            if isinstance(tgt, ast.Subscript) and only_config(tgt, locals_cfg) and only_config(st.value, locals_cfg):
                continue
            # local step object:  x_ = module.AbstractX(...)   /  validation.AbstractInterpolation(...)
            if isinstance(tgt, ast.Name):
                v = st.value
                if isinstance(v, ast.Call) and isinstance(v.func, ast.Attribute) and v.func.attr.startswith("Abstract"):
                    reads = []
                    for a in list(v.args) + [k.value for k in v.keywords]:
                        reads += slots_of(a, w, locals_cfg)
                    bad = [r for r in reads if r not in ("Limg", "Rimg")]
                    if bad:
                        fail(w, f"step object built from data slots {bad}")
                    objs[tgt.id] = reads
                    continue
                fail(w, f"unknown local assignment to {tgt.id}")
            tnames = []
            tlist = tgt.elts if isinstance(tgt, ast.Tuple) else [tgt]
            for t in tlist:
                a = self_attr(t)
                if a is None:
                    fail(w, f"unknown assignment target {ast.dump(t)[:80]}")
                if a in SLOTS:
                    tnames.append(SLOTS[a])
                elif a in CONFIG_ATTRS:
                    tnames.append(None)
                else:
                    fail(w, f"assignment to unknown machine attribute self.{a}")
            v = st.value
            if all(t is None for t in tnames):
                # bookkeeping: self.matching_cost_ = AbstractMatchingCost(**cfg...), self.current_scale = ... - 1
                if isinstance(v, ast.Call) and isinstance(v.func, ast.Attribute) and v.func.attr.startswith("Abstract"):
                    for a in list(v.args) + [k.value for k in v.keywords]:
                        if slots_of(a, w, locals_cfg):
                            fail(w, "matching cost object built from data slots")
                    continue
                if only_config(v, locals_cfg):
                    continue
                fail(w, "configuration attribute assigned from data")
            if any(t is None for t in tnames):
                fail(w, "mixed data/configuration assignment")
            if isinstance(v, ast.Call):
                items.append(("call", tr_call(v, tnames, w, objs, locals_cfg)))
                continue
            if isinstance(v, ast.Constant) and v.value is None:
                items.append(("call", ("FSetNone", [], tnames)))
                continue
            # self.disp_min = self.disp_min * self.scale_factor
            if isinstance(v, ast.BinOp) and isinstance(v.op, ast.Mult) and self_attr(v.right) == "scale_factor" \
                    and self_attr(v.left) in SLOTS:
                items.append(("call", ("FScale", [SLOTS[self_attr(v.left)]], tnames)))
                continue
            fail(w, f"unknown assigned expression {ast.dump(v)[:100]}")
        if isinstance(st, ast.If):
            if is_guard(st.test):
                if not allow_guard:
                    fail(w, "nested right_disp_map guard")
                if st.orelse:
                    fail(w, "else branch on the right_disp_map guard")
                inner = tr_block(st.body, where, objs, locals_cfg, allow_guard=False)
                items.append(("guard", inner))
                continue
            if only_config(st.test, locals_cfg) and not st.orelse:
                inner = tr_block(st.body, where, objs, locals_cfg, allow_guard=False)
                if all(k == "call" for k, _ in inner) or not inner:
                    if inner:
                        items.append(("cfgif", [c for _, c in inner]))
                    continue
            fail(w, f"unknown if statement {ast.dump(st.test)[:100]}")
        fail(w, f"unknown statement {type(st).__name__}")
    return items


def coq_call(c):
    callee, args, outs = c
    return f"mkCall {callee} [{'; '.join(args)}] [{'; '.join(outs)}]"


def coq_list(xs, indent="      "):
    if not xs:
        return "[]"
    return "[ " + (";\n" + indent).join(xs) + " ]"


def segments(items, where):
    """items -> list of (lblock, rblock, guarded, cfg-conditional calls inside the guard flattened with a flag)"""
    segs = []
    cur = []
    for kind, payload in items:
        if kind == "call":
            cur.append(coq_call(payload))
        elif kind == "cfgif":
            fail(where, "configuration-conditional calls outside the right_disp_map guard")
        elif kind == "guard":
            r = []
            for k2, p2 in payload:
                if k2 == "call":
                    r.append(coq_call(p2))
                elif k2 == "cfgif":
                    # calls executed only when a configuration key is present: kept, flagged by FCfgCond marker call
                    r.append("mkCall FCfgCond [] []")
                    r += [coq_call(c) for c in p2]
                else:
                    fail(where, "unexpected structure inside the guard")
            segs.append((cur, r, True))
            cur = []
    if cur:
        segs.append((cur, [], False))
    return segs


def main():
    sys.path.insert(0, REPO)
    from pandora.state_machine import PandoraMachine  # pylint: disable=import-outside-toplevel

    src_file = inspect.getsourcefile(PandoraMachine)
    if not src_file.startswith(REPO):
        fail("import", f"pandora imported from {src_file}, not from {REPO}")
    sources = []
    defs = []
    for name, cname in CALLBACKS:
        func = getattr(PandoraMachine, name, None)
        if func is None:
            fail(name, "callback missing")
        src = textwrap.dedent(inspect.getsource(func))
        node = ast.parse(src).body[0]
        sources.append((src_file, f"PandoraMachine.{name}", sha1_of(src)))
        params = [a.arg for a in node.args.args]
        if params[0] != "self" or len(params) != 3:
            fail(name, f"unexpected signature {params}")
        locals_cfg = set(params[1:])
        items = tr_block(node.body, name, {}, locals_cfg, allow_guard=True)
        segs = segments(items, name)
        seg_txt = []
        for l, r, g in segs:
            seg_txt.append(f"mkSeg\n      {coq_list(l, '        ')}\n      {coq_list(r, '        ')}\n      "
                           f"{'true' if g else 'false'}")
        defs.append(f"  | {cname} =>\n    {coq_list(seg_txt, '    ')}")
    body = ("From Coq Require Import List.\nFrom Pandora Require Import Model.Mirror.\nImport ListNotations.\n\n"
            "Definition gen_callback (c : cbname) : list segment :=\n  match c with\n" + "\n".join(defs) + "\n  end.\n")
    path, changed = emit("Callbacks", body, sources)
    print(f"gen_callbacks: {path} {'rewritten' if changed else 'unchanged'} callbacks={len(defs)}")


if __name__ == "__main__":
    try:
        main()
    except Exception as exc:  # fail closed, one line for the caller
        print(f"TRANSLATION-ERROR gen_callbacks: {type(exc).__name__}: {exc}")
        sys.exit(3)
