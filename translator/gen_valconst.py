"""T-gen: coq/Gen/ValConst.v from pandora/constants.py (the bit values the validation step
and the interpolation kernels add and subtract).  Read from the imported module; every
value must be a Python int (fail closed otherwise)."""
import inspect
import sys

from common import emit, fail, sha1_of, REPO

NAMES = [
    "PANDORA_MSK_PIXEL_INVALID",
    "PANDORA_MSK_PIXEL_LEFT_NODATA_OR_BORDER",
    "PANDORA_MSK_PIXEL_FILLED_OCCLUSION",
    "PANDORA_MSK_PIXEL_FILLED_MISMATCH",
    "PANDORA_MSK_PIXEL_OCCLUSION",
    "PANDORA_MSK_PIXEL_MISMATCH",
]


def main():
    sys.path.insert(0, REPO)
    import pandora.constants as cst

    src = inspect.getsource(cst)
    path = inspect.getsourcefile(cst)
    if not path.startswith(REPO):
        fail("import", f"pandora imported from {path}, not from {REPO}")
    body = "From Coq Require Import ZArith.\nOpen Scope Z_scope.\n"
    for n in NAMES:
        if not hasattr(cst, n):
            fail(f"{path}", f"constant {n} is missing")
        v = getattr(cst, n)
        if not isinstance(v, int) or isinstance(v, bool) or v < 0:
            fail(f"{path}:{n}", f"not a non-negative int: {v!r}")
        body += f"Definition {n} : Z := {v}.\n"
    _, changed = emit("ValConst", body, [(path, "whole file", sha1_of(src))])
    print(f"Gen/ValConst.v {'written' if changed else 'unchanged'}: {len(NAMES)} constants")


if __name__ == "__main__":
    try:
        main()
    except Exception as exc:  # fail closed
        print(f"TranslationError: {exc}")
        sys.exit(3)
