"""T-gen: coq/Gen/RefineKernels.v from the three refinement kernels (Python `ast`, fail closed).

    pandora/refinement/vfit.py        class registered as "vfit":      refinement_method -> vfit
    pandora/refinement/quadratic.py   class registered as "quadratic": refinement_method -> quadratic
    pandora/refinement/refinement.py  AbstractRefinement.loop_refinement, the body of the
                                      `for row in prange(n_row): for col in prange(n_col):` nest
                                                                                        -> loop_pixel

The bodies are translated statement by statement into direct Gallina terms over the float semantics
of coq/Lib/FloatQ.v (fl = option Q, NaN = None; float literals are the exact decimal they denote, so
1.0e-15 is 1 # 10^15; int-typed values are Z and are promoted with fz when they meet a float):

    x = e                         ->  let x := e in ...
    if t: <returns>               ->  if t then ... else <rest>
    if t: x = e [else: x = e']    ->  let x := if t then e else e'|x in ...      (assignment-only branches)
    if t: A else: B ; rest        ->  if t then <A; rest> else <B; rest>         (otherwise)
    return a, b, c                ->  FRet a b c
    a / b (anywhere in e)         ->  match fdiv a b with None => FRaise|PRaise | Some tmpN => ... end
                                      (hoisted in evaluation order; refused under a short-circuit operand)
  pixel body only (the per-pixel state disp[row, col], itp_coeff[row, col], mask[row, col] is threaded
  through shadowing lets and returned as POk disp itp_coeff mask at the end of the body):
    cv[row, col, i]               ->  match read cv i with ROut => POut | RVal tmpN => ... end
                                      (Model.Refine.read: Python wrap-around of negative indices, no bounds check)
    int(e)                        ->  match fint e with None => POut | Some tmpN => ... end
    a, b, c = method([x, y, z], disp[row, col], measure)
                                  ->  match method x y z disp measure with FRaise => PRaise | FRet a b c => ... end
    mask[row, col] |= e           ->  let mask := Z.lor mask e in ...

Anything else (another statement, operator, call, subscript, name, decorator, signature, loop
header, prelude or return of loop_refinement) is a TranslationError naming file:line.
The per-run obligations are in Proofs/RefineGenP.v: the generated vfit / quadratic / loop_pixel are
equivalent (Q equality component-wise) to Model.Refine.vfit / quadratic / loop_pixel for ALL inputs."""
import ast
import os
import re
import sys
from fractions import Fraction

from common import emit, fail, sha1_of, REPO

CONSTS = {"PANDORA_MSK_PIXEL_INVALID": "(k_invalid K)", "PANDORA_MSK_PIXEL_STOPPED_INTERPOLATION": "(k_stopped K)"}
# identifiers a Python local may not take: Gallina keywords and every name the generated text uses
RESERVED = set("""at as cofix else end exists exists2 fix for forall fun if IF in let match mod return Set Prop SProp Type
then using where with K cv method read fint fdiv fadd fsub fmul fneg fabs fpow flt fgt fle fge feq fne fisnan fmin
fmax fz fq fnan FRet FRaise POk PRaise POut RVal ROut Some None true false negb andb orb Z Q fl fres pres consts
measure MMin MMax k_invalid k_stopped vfit quadratic loop_pixel np cst abs min max int prange njit row col n_row n_col
cost""".split())
F_CMP = {ast.Lt: "flt", ast.Gt: "fgt", ast.LtE: "fle", ast.GtE: "fge", ast.Eq: "feq", ast.NotEq: "fne"}
Z_CMP = {ast.Lt: "<?", ast.Gt: ">?", ast.LtE: "<=?", ast.GtE: ">=?", ast.Eq: "=?"}


class Hoist:
    def __init__(self, opening):
        self.opening = opening


class Tr:
    """one function body; ctx = "method" (refinement_method) or "pixel" (loop body of loop_refinement)"""

    def __init__(self, fname, ctx, env):
        self.fname = fname
        self.ctx = ctx
        self.env = dict(env)  # name -> "Z" | "F" | "Q" | "M" (Q: a rational parameter, M: the measure string)
        self.params = set(env)
        self.pre = []
        self.ntmp = 0
        self.guard = 0  # > 0 while translating an operand that Python may not evaluate
        self.raise_ = "FRaise" if ctx == "method" else "PRaise"

    def where(self, node):
        return f"{self.fname}:{getattr(node, 'lineno', '?')}"

    # ------------------------------------------------------------ hoisted partial operations
    def tmp(self):
        self.ntmp += 1
        return f"tmp{self.ntmp}"

    def hoist(self, node, scrutinee, fail_branch, pattern):
        if self.guard:
            fail(self.where(node), "a division / array read / int() inside an operand Python evaluates conditionally "
                                   f"(`and`/`or`): {ast.unparse(node)}")
        t = self.tmp()
        self.pre.append(Hoist(f"match {scrutinee} with {fail_branch} | {pattern} {t} =>\n"))
        return t

    def wrap(self, pre, inner):
        for h in reversed(pre):
            inner = h.opening + inner + " end"
        return inner

    # ------------------------------------------------------------ expressions
    def as_f(self, tv):
        text, ty = tv
        if ty == "F":
            return text
        if ty == "Z":
            return f"(fz {text})"
        if ty == "Q":
            return f"(fq {text})"
        fail(self.fname, f"a value of type {ty} is used as a number: {text}")

    def lit(self, node, v):
        if isinstance(v, bool):
            fail(self.where(node), f"boolean literal {v!r}")
        if isinstance(v, int):
            return (f"({v})%Z", "Z")
        if isinstance(v, float):
            if v != v or v in (float("inf"), float("-inf")):
                fail(self.where(node), f"float literal {v!r}")
            q = Fraction(repr(v))  # the decimal the literal denotes (repr round-trips)
            if float(q) != v:
                fail(self.where(node), f"float literal {v!r} does not round-trip")
            return (f"(fq ({q.numerator} # {q.denominator}))", "F")
        fail(self.where(node), f"literal {v!r} is not a number")

    def state_var(self, e):
        """disp[row, col] / mask[row, col] / itp_coeff[row, col] -> the name of the per-pixel cell, else None"""
        if self.ctx == "pixel" and isinstance(e, ast.Subscript) and isinstance(e.value, ast.Name) \
                and e.value.id in ("disp", "mask", "itp_coeff"):
            s = e.slice
            if isinstance(s, ast.Tuple) and [ast.dump(x) for x in s.elts] == \
                    [ast.dump(ast.Name("row", ast.Load())), ast.dump(ast.Name("col", ast.Load()))]:
                return e.value.id
            fail(self.where(e), f"{e.value.id} is indexed with something else than [row, col]: {ast.unparse(e)}")
        return None

    def expr(self, e):
        """-> (coq text, type)"""
        if isinstance(e, ast.Constant):
            return self.lit(e, e.value)
        if isinstance(e, ast.UnaryOp) and isinstance(e.op, ast.USub) and isinstance(e.operand, ast.Constant) \
                and isinstance(e.operand.value, (int, float)) and not isinstance(e.operand.value, bool):
            return self.lit(e, -e.operand.value)
        if isinstance(e, ast.Name):
            if e.id in self.env and self.env[e.id] in ("Z", "F", "Q"):
                return (e.id, self.env[e.id])
            fail(self.where(e), f"unknown name {e.id}")
        if isinstance(e, ast.Attribute):
            if isinstance(e.value, ast.Name) and e.value.id == "cst" and e.attr in CONSTS:
                return (CONSTS[e.attr], "Z")
            if isinstance(e.value, ast.Name) and e.value.id == "np" and e.attr == "nan":
                return ("fnan", "F")
            fail(self.where(e), f"unknown attribute {ast.unparse(e)}")
        if isinstance(e, ast.Subscript):
            sv = self.state_var(e)
            if sv is not None:
                return (sv, self.env[sv])
            if self.ctx == "method" and isinstance(e.value, ast.Name) and e.value.id == "cost" \
                    and isinstance(e.slice, ast.Constant) and e.slice.value in (0, 1, 2) \
                    and not isinstance(e.slice.value, bool):
                return (f"cost{e.slice.value}", "F")
            if self.ctx == "pixel" and isinstance(e.value, ast.Name) and e.value.id == "cv" \
                    and isinstance(e.slice, ast.Tuple) and len(e.slice.elts) == 3 \
                    and ast.dump(e.slice.elts[0]) == ast.dump(ast.Name("row", ast.Load())) \
                    and ast.dump(e.slice.elts[1]) == ast.dump(ast.Name("col", ast.Load())):
                idx, ty = self.expr(e.slice.elts[2])
                if ty != "Z":
                    fail(self.where(e), f"the disparity index of {ast.unparse(e)} is not an int")
                return (self.hoist(e, f"read cv {idx}", "ROut => POut", "RVal"), "F")
            fail(self.where(e), f"unknown subscript {ast.unparse(e)}")
        if isinstance(e, ast.UnaryOp) and isinstance(e.op, ast.USub):
            t, ty = self.expr(e.operand)
            return (f"(- {t})%Z", "Z") if ty == "Z" else (f"(fneg {self.as_f((t, ty))})", "F")
        if isinstance(e, ast.BinOp):
            if isinstance(e.op, ast.Pow):
                n = e.right
                if not (isinstance(n, ast.Constant) and isinstance(n.value, int) and not isinstance(n.value, bool)
                        and n.value >= 1):
                    fail(self.where(e), f"power with an exponent that is not an integer literal >= 1: {ast.unparse(e)}")
                return (f"(fpow {self.as_f(self.expr(e.left))} {n.value})", "F")
            a = self.expr(e.left)
            b = self.expr(e.right)
            zz = a[1] == "Z" and b[1] == "Z"
            if isinstance(e.op, ast.Div):
                return (self.hoist(e, f"fdiv {self.as_f(a)} {self.as_f(b)}", f"None => {self.raise_}", "Some"), "F")
            if isinstance(e.op, (ast.Add, ast.Sub, ast.Mult)):
                sym, fn = {ast.Add: ("+", "fadd"), ast.Sub: ("-", "fsub"), ast.Mult: ("*", "fmul")}[type(e.op)]
                if zz:
                    return (f"({a[0]} {sym} {b[0]})%Z", "Z")
                return (f"({fn} {self.as_f(a)} {self.as_f(b)})", "F")
            if isinstance(e.op, (ast.BitAnd, ast.BitOr)) and zz:
                return (f"(Z.{'land' if isinstance(e.op, ast.BitAnd) else 'lor'} {a[0]} {b[0]})", "Z")
            fail(self.where(e), f"operator {type(e.op).__name__} not supported: {ast.unparse(e)}")
        if isinstance(e, ast.Call) and not e.keywords and isinstance(e.func, ast.Name):
            f = e.func.id
            if f in self.env:
                fail(self.where(e), f"{f} is a local name, not the builtin")
            if f == "abs" and len(e.args) == 1:
                t, ty = self.expr(e.args[0])
                return (f"(Z.abs {t})", "Z") if ty == "Z" else (f"(fabs {self.as_f((t, ty))})", "F")
            if f in ("min", "max") and len(e.args) == 2:
                a = self.expr(e.args[0])
                b = self.expr(e.args[1])
                if a[1] == "Z" and b[1] == "Z":
                    return (f"(Z.{f} {a[0]} {b[0]})", "Z")
                return (f"(f{f} {self.as_f(a)} {self.as_f(b)})", "F")
            if f == "int" and len(e.args) == 1 and self.ctx == "pixel":
                a = self.expr(e.args[0])
                if a[1] == "Z":
                    return a
                return (self.hoist(e, f"fint {self.as_f(a)}", "None => POut", "Some"), "Z")
        fail(self.where(e), f"expression shape not supported: {ast.unparse(e)}")

    # ------------------------------------------------------------ tests (bool)
    def test(self, t):
        if isinstance(t, ast.BoolOp):
            parts = []
            for i, v in enumerate(t.values):
                if i > 0:
                    self.guard += 1
                parts.append(self.test(v))
                if i > 0:
                    self.guard -= 1
            return "(" + (" || " if isinstance(t.op, ast.Or) else " && ").join(parts) + ")"
        if isinstance(t, ast.UnaryOp) and isinstance(t.op, ast.Not):
            return f"(negb {self.test(t.operand)})"
        if isinstance(t, ast.Call) and not t.keywords and len(t.args) == 1 and isinstance(t.func, ast.Attribute) \
                and isinstance(t.func.value, ast.Name) and t.func.value.id == "np" and t.func.attr == "isnan":
            return f"(fisnan {self.as_f(self.expr(t.args[0]))})"
        if isinstance(t, ast.Compare) and len(t.ops) == 1:
            op, lhs, rhs = t.ops[0], t.left, t.comparators[0]
            if isinstance(lhs, ast.Name) and self.env.get(lhs.id) == "M":
                if isinstance(op, ast.Eq) and isinstance(rhs, ast.Constant) and rhs.value in ("min", "max"):
                    yes, no = ("true", "false") if rhs.value == "max" else ("false", "true")
                    return f"(match {lhs.id} with MMax => {yes} | MMin => {no} end)"
                fail(self.where(t), f"test on the measure not supported: {ast.unparse(t)}")
            a = self.expr(lhs)
            b = self.expr(rhs)
            if a[1] == "Z" and b[1] == "Z":
                if isinstance(op, ast.NotEq):
                    return f"(negb ({a[0]} =? {b[0]})%Z)"
                if type(op) in Z_CMP:
                    return f"({a[0]} {Z_CMP[type(op)]} {b[0]})%Z"
            elif type(op) in F_CMP:
                return f"({F_CMP[type(op)]} {self.as_f(a)} {self.as_f(b)})"
            fail(self.where(t), f"comparison {type(op).__name__} not supported: {ast.unparse(t)}")
        fail(self.where(t), f"test shape not supported: {ast.unparse(t)}")

    # ------------------------------------------------------------ statements
    def bind(self, node, name, ty):
        if name in RESERVED or re.fullmatch(r"tmp\d+|cost[012]", name):
            fail(self.where(node), f"the local name {name} clashes with a name of the generated text")
        if name in self.params or name in ("cost", "cv", "method"):
            # (in the pixel loop a re-assigned parameter would also be carried over to the next iteration)
            fail(self.where(node), f"assignment to the parameter / array {name}")
        self.env[name] = ty

    def terminates(self, stmts):
        if not stmts:
            return False
        s = stmts[-1]
        if isinstance(s, ast.Return):
            return True
        return isinstance(s, ast.If) and self.terminates(s.body) and self.terminates(s.orelse)

    def simple_assigns(self, stmts):
        """[(name, value)] when the block is made only of `name = e` with distinct names, else None"""
        out = []
        for s in stmts:
            if not (isinstance(s, ast.Assign) and len(s.targets) == 1 and isinstance(s.targets[0], ast.Name)):
                return None
            if s.targets[0].id in [n for n, _ in out]:
                return None
            out.append((s.targets[0].id, s.value))
        return out

    def end_of_body(self, node):
        if self.ctx == "method":
            fail(self.where(node) if node is not None else self.fname, "the function can fall off its end without a return")
        return "POk disp itp_coeff mask"

    def block(self, stmts, last=None):
        if not stmts:
            return self.end_of_body(last)
        s, rest = stmts[0], stmts[1:]
        if isinstance(s, ast.Expr) and isinstance(s.value, ast.Constant) and isinstance(s.value.value, str):
            return self.block(rest, s)  # docstring
        self.pre = []
        if isinstance(s, ast.Return):
            if self.ctx != "method":
                fail(self.where(s), "return inside the pixel loop")
            if rest:
                fail(self.where(rest[0]), "statements after return")
            v = s.value
            if not (isinstance(v, ast.Tuple) and len(v.elts) == 3):
                fail(self.where(s), f"return of something else than a 3-tuple: {ast.unparse(s)}")
            a = self.as_f(self.expr(v.elts[0]))
            b = self.as_f(self.expr(v.elts[1]))
            c, ty = self.expr(v.elts[2])
            if ty != "Z":
                fail(self.where(s), f"the third returned value (the flag) is not an int: {ast.unparse(v.elts[2])}")
            return self.wrap(self.pre, f"FRet {a} {b} {c}")
        if isinstance(s, ast.Assign) and len(s.targets) == 1:
            tgt = s.targets[0]
            if isinstance(tgt, ast.Name):
                t, ty = self.expr(s.value)
                pre = self.pre
                if ty == "Q":
                    t, ty = f"(fq {t})", "F"
                self.bind(s, tgt.id, ty)
                return self.wrap(pre, f"let {tgt.id} := {t} in\n" + self.block(rest, s))
            sv = self.state_var(tgt)
            if sv is not None:
                tv = self.expr(s.value)
                pre = self.pre
                if self.env[sv] == "F":
                    t = self.as_f(tv)
                elif tv[1] == "Z":
                    t = tv[0]
                else:
                    fail(self.where(s), f"a float is stored into the integer array {sv}")
                return self.wrap(pre, f"let {sv} := {t} in\n" + self.block(rest, s))
            if self.ctx == "pixel" and isinstance(tgt, ast.Tuple) and len(tgt.elts) == 3 \
                    and all(isinstance(x, ast.Name) for x in tgt.elts):
                c = s.value
                if not (isinstance(c, ast.Call) and isinstance(c.func, ast.Name) and c.func.id == "method"
                        and not c.keywords and len(c.args) == 3 and isinstance(c.args[0], ast.List)
                        and len(c.args[0].elts) == 3 and isinstance(c.args[2], ast.Name)
                        and self.env.get(c.args[2].id) == "M"):
                    fail(self.where(s), f"not a call method([c0, c1, c2], disp, measure): {ast.unparse(s)}")
                costs = [self.as_f(self.expr(x)) for x in c.args[0].elts]
                d = self.as_f(self.expr(c.args[1]))
                pre = self.pre
                names = [x.id for x in tgt.elts]
                if len(set(names)) != 3:
                    fail(self.where(s), "the same name twice in a tuple target")
                for n, ty in zip(names, ("F", "F", "Z")):
                    self.bind(s, n, ty)
                return self.wrap(pre, f"match method {' '.join(costs)} {d} {c.args[2].id} with FRaise => PRaise "
                                      f"| FRet {' '.join(names)} =>\n" + self.block(rest, s) + " end")
        if isinstance(s, ast.AugAssign) and isinstance(s.op, (ast.BitOr, ast.Add)):
            sv = self.state_var(s.target)
            if sv == "mask":
                t, ty = self.expr(s.value)
                pre = self.pre
                if ty != "Z":
                    fail(self.where(s), "the mask is updated with a value that is not an int")
                new = f"(Z.lor mask {t})" if isinstance(s.op, ast.BitOr) else f"(mask + {t})%Z"
                return self.wrap(pre, f"let mask := {new} in\n" + self.block(rest, s))
        if isinstance(s, ast.If):
            tst = self.test(s.test)
            pre = self.pre
            if self.ctx == "method" and self.terminates(s.body):
                env0 = dict(self.env)
                b1 = self.block(s.body, s)
                self.env = dict(env0)
                b2 = self.block(s.orelse + rest, s)
                return self.wrap(pre, f"if {tst} then\n{b1}\nelse\n{b2}")
            a1, a2 = self.simple_assigns(s.body), self.simple_assigns(s.orelse)
            if a1 and a2 is not None and all(n in self.env and self.env[n] in ("Z", "F") for n, _ in a1 + a2):
                merged = self.merge_assigns(s, a1, a2)
                if merged is not None:
                    return self.wrap(pre, f"let {merged[0]} := if {tst} then {merged[1]} else {merged[2]} in\n"
                                     + self.block(rest, s))
            env0 = dict(self.env)
            b1 = self.block(s.body + rest, s)
            self.env = dict(env0)
            b2 = self.block(s.orelse + rest, s)
            return self.wrap(pre, f"if {tst} then\n{b1}\nelse\n{b2}")
        fail(self.where(s), f"statement shape not supported: {ast.unparse(s).splitlines()[0]}")

    def merge_assigns(self, node, a1, a2):
        """`if t: x = e [; y = f] else: ...` on names already defined, without hoisted operations in the branches:
        (pattern, then-tuple, else-tuple); None when a branch needs a hoist (the caller then duplicates the rest)"""
        names = [n for n, _ in a1] + [n for n, _ in a2 if n not in [m for m, _ in a1]]
        sides = []
        for assigns in (a1, a2):
            env0 = dict(self.env)
            lets = []
            self.pre = []
            for n, v in assigns:
                t, ty = self.expr(v)
                if self.pre:
                    self.env = env0
                    return None
                if ty == "Z" and env0[n] == "F":
                    t, ty = f"(fz {t})", "F"
                if ty != env0[n]:
                    fail(self.where(node), f"the branch changes the type of {n} from {env0[n]} to {ty}")
                lets.append(f"let {n} := {t} in")
                self.env[n] = ty
            self.env = env0
            tup = names[0] if len(names) == 1 else "(" + ", ".join(names) + ")"
            sides.append("(" + " ".join(lets + [tup]) + ")")
        pat = names[0] if len(names) == 1 else "'(" + ", ".join(names) + ")"
        return pat, sides[0], sides[1]


# ---------------------------------------------------------------- locating the functions


def parse_module(path):
    if not os.path.isfile(path):
        fail(path, "file is missing")
    with open(path) as f:
        src = f.read()
    return src, ast.parse(src)


def check_imports(path, tree, need):
    """the aliases the translation relies on: cst = pandora.constants, np = numpy, njit/prange from numba"""
    seen = {}
    for n in tree.body:
        if isinstance(n, ast.Import):
            for a in n.names:
                seen[a.asname or a.name.split(".")[0]] = a.name
        elif isinstance(n, ast.ImportFrom) and n.level == 0:
            for a in n.names:
                seen[a.asname or a.name] = f"{n.module}.{a.name}"
    want = {"cst": "pandora.constants", "np": "numpy", "njit": "numba.njit", "prange": "numba.prange"}
    for alias in need:
        if seen.get(alias) != want[alias]:
            fail(path, f"the name {alias} is not {want[alias]} (found {seen.get(alias)!r})")
    # no module-level rebinding of those aliases or of the builtins the translation interprets
    for n in tree.body:
        if isinstance(n, (ast.ClassDef, ast.Import, ast.ImportFrom)):
            continue
        names = [n.name] if isinstance(n, (ast.FunctionDef, ast.AsyncFunctionDef)) else \
            [t.id for t in ast.walk(n) if isinstance(t, ast.Name) and isinstance(t.ctx, ast.Store)]
        for nm in names:
            if nm in want or nm in ("abs", "min", "max", "int"):
                fail(f"{path}:{n.lineno}", f"the module rebinds {nm}")
    for alias, full in seen.items():
        if alias in ("abs", "min", "max", "int"):
            fail(path, f"the module imports {full} as {alias}")


def registered_class(path, tree, short_name):
    found = []
    for n in tree.body:
        if isinstance(n, ast.ClassDef):
            for d in n.decorator_list:
                if isinstance(d, ast.Call) and isinstance(d.func, ast.Attribute) and d.func.attr == "register_subclass" \
                        and len(d.args) == 1 and isinstance(d.args[0], ast.Constant) and d.args[0].value == short_name:
                    found.append(n)
    if len(found) != 1:
        fail(path, f"{len(found)} classes registered as {short_name!r}")
    return found[0]


def method_of(path, cls, name, params):
    fns = [n for n in cls.body if isinstance(n, ast.FunctionDef) and n.name == name]
    if len(fns) != 1:
        fail(f"{path}:{cls.lineno}", f"{len(fns)} definitions of {cls.name}.{name}")
    fn = fns[0]
    decos = []
    for d in fn.decorator_list:
        if isinstance(d, ast.Name):
            decos.append(d.id)
        elif isinstance(d, ast.Call) and isinstance(d.func, ast.Name):
            decos.append(d.func.id)
            # error_model="numpy" / fastmath would change what a division by zero or a NaN comparison does
            if d.args or any(k.arg not in ("cache", "parallel") for k in d.keywords):
                fail(f"{path}:{d.lineno}", f"decorator arguments not supported: {ast.unparse(d)}")
        else:
            fail(f"{path}:{d.lineno}", f"decorator not supported: {ast.unparse(d)}")
    if decos != ["staticmethod", "njit"]:
        fail(f"{path}:{fn.lineno}", f"{name} is decorated with {decos}, expected staticmethod + njit")
    a = fn.args
    if [x.arg for x in a.args] != params or a.vararg or a.kwarg or a.kwonlyargs or a.posonlyargs or a.defaults:
        fail(f"{path}:{fn.lineno}", f"unexpected signature of {name}: {[x.arg for x in a.args]}")
    for n in ast.walk(fn):
        if isinstance(n, (ast.Global, ast.Nonlocal, ast.Lambda, ast.FunctionDef)) and n is not fn:
            fail(f"{path}:{n.lineno}", f"{type(n).__name__} inside {name}")
    return fn


def seg(src, fn):
    return "\n".join(src.splitlines()[fn.lineno - 1:fn.end_lineno])


def same(node, text):
    return ast.dump(node) == ast.dump(ast.parse(text).body[0])


def translate_method(path, short_name):
    src, tree = parse_module(path)
    check_imports(path, tree, ["cst", "np", "njit"])
    cls = registered_class(path, tree, short_name)
    fn = method_of(path, cls, "refinement_method", ["cost", "disp", "measure"])
    tr = Tr(path, "method", {"disp": "F", "measure": "M"})
    body = tr.block(fn.body, fn)
    return body, (path, f"lines {fn.lineno}-{fn.end_lineno} ({cls.name}.refinement_method)", sha1_of(seg(src, fn)))


CALL_SITE = """
d_min = cv.coords["disp"].data[0]
d_max = cv.coords["disp"].data[-1]
subpixel = cv.attrs["subpixel"]
measure = cv.attrs["type_measure"]
self.loop_refinement(cv["cost_volume"].data, disp["disparity_map"].data, disp["validity_mask"].data, d_min, d_max,
                     subpixel, measure, self.refinement_method)
"""


def check_call_site(path, cls):
    """subpixel_refinement(self, cv, disp) hands to the kernel: the arrays of cv / disp, the first and last disparity
    of the cost volume, its subpixel and type_measure attributes, and the class's own refinement_method"""
    fns = [n for n in cls.body if isinstance(n, ast.FunctionDef) and n.name == "subpixel_refinement"]
    if len(fns) != 1 or [a.arg for a in fns[0].args.args] != ["self", "cv", "disp"]:
        fail(f"{path}:{cls.lineno}", "subpixel_refinement(self, cv, disp) not found")
    fn = fns[0]
    want = ast.parse(CALL_SITE).body
    for w in want[:4]:
        name = w.targets[0].id
        got = [n for n in ast.walk(fn) if isinstance(n, (ast.Assign, ast.AugAssign, ast.AnnAssign)) and any(
            isinstance(t, ast.Name) and t.id == name and isinstance(t.ctx, ast.Store) for t in ast.walk(n))]
        if len(got) != 1 or ast.dump(got[0]) != ast.dump(w):
            fail(f"{path}:{fn.lineno}", f"subpixel_refinement does not set {name} as `{ast.unparse(w)}`")
    calls = [n for n in ast.walk(fn) if isinstance(n, ast.Call) and isinstance(n.func, ast.Attribute)
             and n.func.attr == "loop_refinement"]
    if len(calls) != 1 or ast.dump(calls[0]) != ast.dump(want[4].value):
        fail(f"{path}:{fn.lineno}", "subpixel_refinement does not call self.loop_refinement(cv[...].data, disp[...].data, "
                                    "disp[...].data, d_min, d_max, subpixel, measure, self.refinement_method) exactly once")


def translate_loop(path):
    src, tree = parse_module(path)
    check_imports(path, tree, ["cst", "np", "njit", "prange"])
    cls = [n for n in tree.body if isinstance(n, ast.ClassDef) and n.name == "AbstractRefinement"]
    if len(cls) != 1:
        fail(path, f"{len(cls)} classes named AbstractRefinement")
    params = ["cv", "disp", "mask", "d_min", "d_max", "subpixel", "measure", "method"]
    fn = method_of(path, cls[0], "loop_refinement", params)
    check_call_site(path, cls[0])
    stmts = [s for s in fn.body
             if not (isinstance(s, ast.Expr) and isinstance(s.value, ast.Constant) and isinstance(s.value.value, str))]
    if len(stmts) != 4:
        fail(f"{path}:{fn.lineno}", f"loop_refinement has {len(stmts)} top-level statements, expected the shape "
                                    "`n_row, n_col, _ = cv.shape; itp_coeff = np.zeros(...); for row ...; return ...`")
    if not same(stmts[0], "n_row, n_col, _ = cv.shape"):
        fail(f"{path}:{stmts[0].lineno}", f"unexpected prelude: {ast.unparse(stmts[0])}")
    if not same(stmts[1], "itp_coeff = np.zeros((n_row, n_col), dtype=np.float64)"):
        fail(f"{path}:{stmts[1].lineno}", f"unexpected prelude: {ast.unparse(stmts[1])}")
    if not same(stmts[3], "return itp_coeff, disp, mask"):
        fail(f"{path}:{stmts[3].lineno}", f"unexpected return: {ast.unparse(stmts[3])}")
    outer = stmts[2]
    ok = isinstance(outer, ast.For) and isinstance(outer.target, ast.Name) and outer.target.id == "row" \
        and same(ast.Expr(outer.iter), "prange(n_row)") and not outer.orelse and len(outer.body) == 1
    inner = outer.body[0] if ok else None
    ok = ok and isinstance(inner, ast.For) and isinstance(inner.target, ast.Name) and inner.target.id == "col" \
        and same(ast.Expr(inner.iter), "prange(n_col)") and not inner.orelse
    if not ok:
        fail(f"{path}:{outer.lineno}", "the loop nest is not `for row in prange(n_row): for col in prange(n_col):`")
    for n in ast.walk(inner):
        if isinstance(n, (ast.For, ast.While, ast.Break, ast.Continue, ast.Return, ast.Try, ast.With)) and n is not inner:
            fail(f"{path}:{n.lineno}", f"{type(n).__name__} inside the pixel body")
        if isinstance(n, ast.Name) and isinstance(n.ctx, ast.Store) and n.id in ("row", "col", "n_row", "n_col") \
                and n is not inner.target:
            fail(f"{path}:{n.lineno}", f"the pixel body assigns {n.id}")
    # itp_coeff starts at 0.0 (np.zeros); every path of the body stores into it
    tr = Tr(path, "pixel", {"disp": "F", "mask": "Z", "itp_coeff": "F", "d_min": "Q", "d_max": "Q", "subpixel": "Z",
                            "measure": "M"})
    body = tr.block(inner.body, inner)
    return body, (path, f"lines {fn.lineno}-{fn.end_lineno} (AbstractRefinement.loop_refinement)", sha1_of(seg(src, fn)))


HEADER = """From Coq Require Import ZArith QArith Qabs Bool List.
From Pandora Require Import Lib.FloatQ Model.Refine.
Open Scope Q_scope.

"""


def indent(text, pad="  "):
    return "\n".join(pad + l for l in text.splitlines())


def main():
    try:
        translate()
    except BaseException as exc:
        # fail closed: no stale kernels from an earlier run may stay behind for Proofs/RefineGenP.v to be checked
        # against; an empty file makes the three equality obligations (and what is built on them) fail to build
        msg = f"{type(exc).__name__}: {exc}".replace("*)", "* )").replace("(*", "( *")
        emit("RefineKernels", f"(* TRANSLATION FAILED, nothing generated:\n   {msg}\n*)\n", [])
        raise


def translate():
    rdir = os.path.join(REPO, "pandora", "refinement")
    vfit, s1 = translate_method(os.path.join(rdir, "vfit.py"), "vfit")
    quad, s2 = translate_method(os.path.join(rdir, "quadratic.py"), "quadratic")
    loop, s3 = translate_loop(os.path.join(rdir, "refinement.py"))
    body = HEADER
    for name, text in (("vfit", vfit), ("quadratic", quad)):
        body += (f"(* {name}.py refinement_method(cost, disp, measure); cost = [cost0, cost1, cost2] *)\n"
                 f"Definition {name} (K : consts) (cost0 cost1 cost2 : fl) (disp : fl) (measure : Refine.measure) : fres :=\n"
                 + indent(text) + ".\n\n")
    body += ("(* refinement.py loop_refinement: the body of the (row, col) loop nest on one pixel; cv = cv[row, col, :],\n"
             "   disp = disp[row, col], mask = mask[row, col]; the result is (disp, itp_coeff, mask)[row, col] *)\n"
             "Definition loop_pixel (K : consts) (cv : list (option Q)) (disp : fl) (mask : Z) (d_min d_max : Q)\n"
             "           (subpixel : Z) (measure : Refine.measure) (method : fl -> fl -> fl -> fl -> Refine.measure -> fres) : pres :=\n"
             "  let itp_coeff := fz 0 in\n" + indent(loop) + ".\n")
    path, changed = emit("RefineKernels", body, [s1, s2, s3])
    print(f"gen_refine_kernels: {path} {'rewritten' if changed else 'unchanged'} "
          f"sha1 vfit={s1[2][:8]} quadratic={s2[2][:8]} loop_refinement={s3[2][:8]}")


if __name__ == "__main__":
    try:
        main()
    except Exception as exc:  # fail closed, one line for the caller
        print(f"TRANSLATION-ERROR gen_refine_kernels: {type(exc).__name__}: {exc}")
        sys.exit(3)
