"""T-gen: coq/Gen/Margins.v

 * the margins of every step class: descriptors of the abstract classes read from the imported
   class objects (FixedMargins family: their value; HalfWindowMargins: `__get__` body by ast),
   `margins` properties of the filter classes by ast;
 * which <kind>_check_conf callback of PandoraMachine registers margins, and in which map
   (add_cumulative / add_non_cumulative), by ast.
Fail closed: every unknown shape is a TranslationError."""
import ast
import inspect
import sys
import textwrap

from common import emit, fail, sha1_of, REPO

KINDS = [("matching_cost", "MC"), ("aggregation", "Agg"), ("semantic_segmentation", "Seg"), ("optimization", "Opt"),
         ("disparity", "Dsp"), ("filter", "Flt"), ("refinement", "Ref"), ("validation", "Val"), ("multiscale", "Msc"),
         ("cost_volume_confidence", "Cvc")]
FILTERS = [("median", "FMedian"), ("bilateral", "FBilateral"), ("median_for_intervals", "FMedianForIntervals")]


def is_self_attr(node, name, selfname="self"):
    return (isinstance(node, ast.Attribute) and isinstance(node.value, ast.Name) and node.value.id == selfname
            and node.attr == name)


def tr_expr(node, env, where):
    """Python expression -> mexpr text"""
    if isinstance(node, ast.Constant) and isinstance(node.value, int) and not isinstance(node.value, bool):
        return f"(MConst ({node.value}))"
    if isinstance(node, ast.Name):
        if node.id in env:
            return env[node.id]
        fail(where, f"unknown name {node.id}")
    if is_self_attr(node, "_filter_size"):
        return "MFilterSize"
    if is_self_attr(node, "_step"):
        return "MStep"
    # instance.__dict__["_window_size"]
    if (isinstance(node, ast.Subscript) and isinstance(node.value, ast.Attribute) and node.value.attr == "__dict__"
            and isinstance(node.value.value, ast.Name) and node.value.value.id == "instance"
            and isinstance(node.slice, ast.Constant) and node.slice.value == "_window_size"):
        return "MWin"
    if isinstance(node, ast.BinOp) and isinstance(node.op, ast.Sub):
        return f"(MSub {tr_expr(node.left, env, where)} {tr_expr(node.right, env, where)})"
    if isinstance(node, ast.BinOp) and isinstance(node.op, ast.Mult):
        return f"(MMul {tr_expr(node.left, env, where)} {tr_expr(node.right, env, where)})"
    if isinstance(node, ast.Call) and isinstance(node.func, ast.Name) and node.func.id == "int" and len(node.args) == 1 \
            and not node.keywords:
        arg = node.args[0]
        # int(3 * self._sigma_space + 1)
        if (isinstance(arg, ast.BinOp) and isinstance(arg.op, ast.Add) and isinstance(arg.right, ast.Constant)
                and arg.right.value == 1 and isinstance(arg.left, ast.BinOp) and isinstance(arg.left.op, ast.Mult)
                and isinstance(arg.left.left, ast.Constant) and arg.left.left.value == 3
                and is_self_attr(arg.left.right, "_sigma_space")):
            return "MSigmaSpace3p1"
        # int(a / N)
        if isinstance(arg, ast.BinOp) and isinstance(arg.op, ast.Div) and isinstance(arg.right, ast.Constant) \
                and isinstance(arg.right.value, int) and arg.right.value > 0:
            return f"(MTruncDiv {tr_expr(arg.left, env, where)} ({arg.right.value}))"
        fail(where, f"unknown int(...) argument: {ast.dump(arg)}")
    if isinstance(node, ast.Call) and isinstance(node.func, ast.Name) and node.func.id == "min" and not node.keywords:
        items = []
        for a in node.args:
            if isinstance(a, ast.Starred):
                if is_self_attr(a.value, "_image_shape"):
                    items += ["MRows", "MCols"]
                else:
                    fail(where, f"unknown starred min argument {ast.dump(a)}")
            else:
                items.append(tr_expr(a, env, where))
        if not items:
            fail(where, "min() without arguments")
        out = items[-1]
        for it in reversed(items[:-1]):
            out = f"(MMin {it} {out})"
        return out
    fail(where, f"unknown expression {ast.dump(node)}")


def tr_body(fn_node, where, skip_instance_none=False):
    """function body: [if instance is None: return self]  name = expr ... return Margins(a,b,c,d)  -> 4 mexpr texts"""
    env = {}
    body = [s for s in fn_node.body if not (isinstance(s, ast.Expr) and isinstance(s.value, ast.Constant))]
    for st in body:
        if skip_instance_none and isinstance(st, ast.If):
            t = st.test
            ok = (isinstance(t, ast.Compare) and isinstance(t.left, ast.Name) and t.left.id == "instance"
                  and len(t.ops) == 1 and isinstance(t.ops[0], ast.Is) and isinstance(t.comparators[0], ast.Constant)
                  and t.comparators[0].value is None and len(st.body) == 1 and isinstance(st.body[0], ast.Return)
                  and isinstance(st.body[0].value, ast.Name) and st.body[0].value.id == "self" and not st.orelse)
            if not ok:
                fail(where, "unknown if statement in descriptor")
            continue
        if isinstance(st, ast.Assign) and len(st.targets) == 1 and isinstance(st.targets[0], ast.Name):
            env[st.targets[0].id] = tr_expr(st.value, env, where)
            continue
        if isinstance(st, ast.Return):
            v = st.value
            if isinstance(v, ast.Call) and isinstance(v.func, ast.Name) and v.func.id == "Margins" and len(v.args) == 4 \
                    and not v.keywords:
                return [tr_expr(a, env, where) for a in v.args]
            fail(where, f"return value is not Margins(a,b,c,d): {ast.dump(v)}")
        fail(where, f"unknown statement {ast.dump(st)[:120]}")
    fail(where, "no return statement")


def fn_ast(func, where):
    src = textwrap.dedent(inspect.getsource(func))
    tree = ast.parse(src)
    if not tree.body or not isinstance(tree.body[0], ast.FunctionDef):
        fail(where, "not a function definition")
    return tree.body[0], src


def e4(parts):
    return "(mkE4 " + " ".join(parts) + ")"


def class_margins(cls, where, sources):
    """margins of a class (descriptor or property), as 4 mexpr texts; None when the class has no margins attribute"""
    from pandora.margins.descriptors import FixedMargins, HalfWindowMargins
    from pandora.margins import Margins

    attr = None
    for klass in cls.__mro__:
        if "margins" in klass.__dict__:
            attr = klass.__dict__["margins"]
            break
    if attr is None:
        return None
    if isinstance(attr, property):
        node, src = fn_ast(attr.fget, where)
        sources.append((inspect.getsourcefile(attr.fget), f"{cls.__name__}.margins", sha1_of(src)))
        return tr_body(node, where)
    if isinstance(attr, FixedMargins):
        v = attr.value
        if not isinstance(v, Margins):
            fail(where, "FixedMargins.value is not a Margins")
        # the descriptor must return self.value
        node, src = fn_ast(type(attr).__get__, where)
        sources.append((inspect.getsourcefile(type(attr).__get__), f"{type(attr).__name__}.__get__", sha1_of(src)))
        last = node.body[-1]
        if not (isinstance(last, ast.Return) and is_self_attr(last.value, "value")):
            fail(where, "FixedMargins.__get__ does not return self.value")
        return [f"(MConst ({x}))" for x in (v.left, v.up, v.right, v.down)]
    if isinstance(attr, HalfWindowMargins):
        node, src = fn_ast(HalfWindowMargins.__get__, where)
        sources.append((inspect.getsourcefile(HalfWindowMargins.__get__), "HalfWindowMargins.__get__", sha1_of(src)))
        return tr_body(node, where, skip_instance_none=True)
    fail(where, f"unknown kind of margins attribute: {type(attr).__name__}")


def registration(machine_cls, kind, where, sources):
    """which map <kind>_check_conf registers the step's margins in"""
    func = getattr(machine_cls, kind + "_check_conf", None)
    if func is None:
        fail(where, f"no callback {kind}_check_conf")
    node, src = fn_ast(func, where)
    sources.append((inspect.getsourcefile(func), f"PandoraMachine.{kind}_check_conf", sha1_of(src)))
    found = []
    for sub in ast.walk(node):
        if isinstance(sub, ast.Call) and isinstance(sub.func, ast.Attribute) and \
                is_self_attr(sub.func.value, "margins"):
            meth = sub.func.attr
            if meth not in ("add_cumulative", "add_non_cumulative"):
                fail(where, f"unknown call self.margins.{meth}")
            if len(sub.args) != 2 or sub.keywords:
                fail(where, "margins registration with unexpected arguments")
            a0, a1 = sub.args
            if not (isinstance(a0, ast.Name) and a0.id == "input_step"):
                fail(where, "margins are not registered under the step name (input_step)")
            if not (isinstance(a1, ast.Attribute) and a1.attr == "margins" and isinstance(a1.value, ast.Name)):
                fail(where, "registered value is not <object>.margins")
            found.append((meth, a1.value.id))
    # any other mention of self.margins is unknown
    mentions = sum(1 for sub in ast.walk(node) if is_self_attr(sub, "margins"))
    if mentions != len(found):
        fail(where, "self.margins used outside add_cumulative/add_non_cumulative calls")
    if len(found) > 1:
        fail(where, "several margin registrations in one callback")
    if not found:
        return "RegNone"
    meth, obj = found[0]
    # the registration is unconditional for an accepted step: it is a top-level statement of the callback, and no
    # `return` occurs anywhere in the callback (a `raise` rejects the pipeline, which is fine; a `return` before the
    # registration, even nested under an `if`, would drop the step's margins for some accepted configurations)
    top = [st for st in node.body if isinstance(st, ast.Expr) and isinstance(st.value, ast.Call)
           and isinstance(st.value.func, ast.Attribute) and is_self_attr(st.value.func.value, "margins")]
    if len(top) != 1:
        fail(where, "the margins registration is not a top-level statement of the callback (conditional registration)")
    if any(isinstance(sub, ast.Return) for sub in ast.walk(node)):
        fail(where, "a `return` inside the callback may skip the margins registration")
    if any(isinstance(sub, (ast.Try, ast.While, ast.For)) for sub in ast.walk(node)):
        fail(where, "loop / try statement in a callback that registers margins (unknown shape)")
    # the registered object must be the one built from the step's configuration in this callback
    built = False
    for sub in ast.walk(node):
        if isinstance(sub, ast.Assign) and len(sub.targets) == 1 and isinstance(sub.targets[0], ast.Name) \
                and sub.targets[0].id == obj and isinstance(sub.value, ast.Call):
            f = sub.value.func
            if isinstance(f, ast.Attribute) and f.attr.startswith("Abstract") and isinstance(f.value, ast.Name) \
                    and f.value.id == kind:
                built = True
    if not built:
        fail(where, f"{obj} is not built by {kind}.Abstract...(...) in the callback")
    return "RegCumulative" if meth == "add_cumulative" else "RegNonCumulative"


def check_resets_margins(machine_cls, sources):
    """Does PandoraMachine.check_conf start its FIRST round (`if not right_left_img_check:` before the
    transitions are added and before the loop over the steps) with `self.margins = GlobalMargins()`?
    Returns True / False; any other use of self.margins in check_conf is an unknown shape."""
    where = "PandoraMachine.check_conf"
    func = getattr(machine_cls, "check_conf", None)
    if func is None:
        fail(where, "no method check_conf")
    node, src = fn_ast(func, where)
    sources.append((inspect.getsourcefile(func), where, sha1_of(src)))
    argnames = [a.arg for a in node.args.args]
    if "right_left_img_check" not in argnames:
        fail(where, "no parameter right_left_img_check (the second-round marker)")
    resets = 0
    started = False
    for st in node.body:
        is_add = (isinstance(st, ast.Expr) and isinstance(st.value, ast.Call) and isinstance(st.value.func, ast.Attribute)
                  and st.value.func.attr == "add_transitions")
        if is_add or isinstance(st, (ast.For, ast.While)):
            started = True
        if started:
            continue
        if isinstance(st, ast.If) and isinstance(st.test, ast.UnaryOp) and isinstance(st.test.op, ast.Not) \
                and isinstance(st.test.operand, ast.Name) and st.test.operand.id == "right_left_img_check" \
                and not st.orelse:
            for sub in st.body:
                if isinstance(sub, ast.Assign) and len(sub.targets) == 1 and is_self_attr(sub.targets[0], "margins"):
                    v = sub.value
                    if not (isinstance(v, ast.Call) and isinstance(v.func, ast.Name) and v.func.id == "GlobalMargins"
                            and not v.args and not v.keywords):
                        fail(where, "self.margins is reset to something else than GlobalMargins()")
                    resets += 1
    mentions = sum(1 for sub in ast.walk(node) if is_self_attr(sub, "margins"))
    if mentions != resets:
        fail(where, "self.margins used in check_conf outside the first-round reset `self.margins = GlobalMargins()`")
    if resets > 1:
        fail(where, "several resets of self.margins")
    return resets == 1


def main():
    sys.path.insert(0, REPO)
    import pandora  # noqa: F401  pylint: disable=import-outside-toplevel,unused-import
    from pandora.state_machine import PandoraMachine  # pylint: disable=import-outside-toplevel
    from pandora import (matching_cost, aggregation, semantic_segmentation, optimization, disparity, filter as pfilter,
                         refinement, validation, multiscale, cost_volume_confidence)

    src_file = inspect.getsourcefile(PandoraMachine)
    if not src_file.startswith(REPO):
        fail("import", f"pandora imported from {src_file}, not from {REPO}")
    abstract = {
        "matching_cost": matching_cost.AbstractMatchingCost, "aggregation": aggregation.AbstractAggregation,
        "semantic_segmentation": semantic_segmentation.AbstractSemanticSegmentation,
        "optimization": optimization.AbstractOptimization, "disparity": disparity.AbstractDisparity,
        "filter": pfilter.AbstractFilter, "refinement": refinement.AbstractRefinement,
        "validation": validation.AbstractValidation, "multiscale": multiscale.AbstractMultiscale,
        "cost_volume_confidence": cost_volume_confidence.AbstractCostVolumeConfidence,
    }
    sources = []
    regs, exprs = [], []
    for kind, ck in KINDS:
        reg = registration(PandoraMachine, kind, f"{kind}_check_conf", sources)
        m = class_margins(abstract[kind], f"{abstract[kind].__name__}.margins", sources)
        if m is None:
            if reg != "RegNone":
                fail(kind, "callback registers margins but the class has none")
            m = ["(MConst 0)"] * 4
        regs.append(f"  | {ck} => {reg}")
        exprs.append(f"  | {ck} => {e4(m)}")
        # every registered built-in subclass of a non-filter kind must use the abstract class's margins
        if kind != "filter":
            avail = [v for k, v in vars(abstract[kind]).items() if k.endswith("_methods_avail")]
            for table in avail:
                for name, sub in table.items():
                    if not sub.__module__.startswith("pandora."):
                        continue  # plugins / harness stubs are outside the model
                    if "margins" in sub.__dict__:
                        fail(kind, f"built-in method {name} overrides margins: not representable")
    filt = []
    for name, cf in FILTERS:
        cls = pfilter.AbstractFilter.filter_methods_avail.get(name)
        if cls is None:
            fail("filter", f"filter method {name} is not registered")
        filt.append(f"  | {cf} => {e4(class_margins(cls, f'{cls.__name__}.margins', sources))}")
    extra = set(k for k, v in pfilter.AbstractFilter.filter_methods_avail.items()
                if v.__module__.startswith("pandora.")) - {n for n, _ in FILTERS}
    if extra:
        fail("filter", f"unknown built-in filter methods {sorted(extra)}")
    body = ("From Coq Require Import ZArith List.\nFrom Pandora Require Import Model.Machine Model.Margins.\n"
            "Import ListNotations.\nOpen Scope Z_scope.\n\n")
    body += "Definition gen_reg (k : kind) : reg :=\n  match k with\n" + "\n".join(regs) + "\n  end.\n\n"
    body += "Definition gen_expr (k : kind) : mexpr4 :=\n  match k with\n" + "\n".join(exprs) + "\n  end.\n\n"
    body += "Definition gen_filter (m : fmethod) : mexpr4 :=\n  match m with\n" + "\n".join(filt) + "\n  end.\n\n"
    body += "Definition gen_margin_tables : margin_tables := mkTbl gen_reg gen_expr gen_filter.\n\n"
    resets = check_resets_margins(PandoraMachine, sources)
    body += ("(* PandoraMachine.check_conf, first round: `if not right_left_img_check: ... self.margins = GlobalMargins()`\n"
             "   before the transitions are added *)\n"
             f"Definition gen_check_resets_margins : bool := {'true' if resets else 'false'}.\n")
    path, changed = emit("Margins", body, sources)
    print(f"gen_margins: {path} {'rewritten' if changed else 'unchanged'} sources={len(sources)}")


if __name__ == "__main__":
    try:
        main()
    except Exception as exc:  # fail closed, one line for the caller
        print(f"TRANSLATION-ERROR gen_margins: {type(exc).__name__}: {exc}")
        sys.exit(3)
