(* Generic line-oriented driver for the extracted Coq models.
   Input : one case per line, "<function id> <s-expression>"
   Output: one line per case, the s-expression of the result value.
   S-expressions: decimal integers and parenthesised lists.  All decoding of
   arguments is done in Gallina ([Model.dispatch : z -> value -> value]);
   this file only converts integers and list structure. *)

let rec pos_of_big (n : Z.t) : Model.positive =
  if Z.equal n Z.one then Model.XH
  else
    let q = Z.shift_right n 1 in
    if Z.testbit n 0 then Model.XI (pos_of_big q) else Model.XO (pos_of_big q)

let z_of_big (n : Z.t) : Model.z =
  let s = Z.sign n in
  if s = 0 then Model.Z0
  else if s > 0 then Model.Zpos (pos_of_big n)
  else Model.Zneg (pos_of_big (Z.neg n))

let rec big_of_pos (p : Model.positive) : Z.t =
  match p with
  | Model.XH -> Z.one
  | Model.XO q -> Z.shift_left (big_of_pos q) 1
  | Model.XI q -> Z.succ (Z.shift_left (big_of_pos q) 1)

let big_of_z (z : Model.z) : Z.t =
  match z with
  | Model.Z0 -> Z.zero
  | Model.Zpos p -> big_of_pos p
  | Model.Zneg p -> Z.neg (big_of_pos p)

exception Parse_error of string

(* parse one value starting at position [i]; returns (value, next position) *)
let rec parse (s : string) (i : int) : Model.value * int =
  let n = String.length s in
  let rec skip i = if i < n && (s.[i] = ' ' || s.[i] = '\t') then skip (i + 1) else i in
  let i = skip i in
  if i >= n then raise (Parse_error "unexpected end")
  else if s.[i] = '(' then begin
    let rec items i acc =
      let i = skip i in
      if i >= n then raise (Parse_error "missing )")
      else if s.[i] = ')' then (Model.VL (List.rev acc), i + 1)
      else
        let v, j = parse s i in
        items j (v :: acc)
    in
    items (i + 1) []
  end else begin
    let j = ref i in
    while !j < n && s.[!j] <> ' ' && s.[!j] <> ')' && s.[!j] <> '(' do incr j done;
    let tok = String.sub s i (!j - i) in
    (Model.VZ (z_of_big (Z.of_string tok)), !j)
  end

let rec print (b : Buffer.t) (v : Model.value) : unit =
  match v with
  | Model.VZ z -> Buffer.add_string b (Z.to_string (big_of_z z))
  | Model.VL l ->
      Buffer.add_char b '(';
      List.iteri (fun k x -> if k > 0 then Buffer.add_char b ' '; print b x) l;
      Buffer.add_char b ')'

let () =
  let b = Buffer.create 65536 in
  try
    while true do
      let line = input_line stdin in
      if String.length line > 0 then begin
        let fid, i = parse line 0 in
        let arg, _ = parse line i in
        let fz = match fid with Model.VZ z -> z | _ -> raise (Parse_error "fid") in
        Buffer.clear b;
        (try print b (Model.dispatch fz arg)
         with Stack_overflow -> Buffer.add_string b "STACK_OVERFLOW");
        print_string (Buffer.contents b);
        print_newline ()
      end
    done
  with End_of_file -> ()
