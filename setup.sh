#!/bin/bash
# MANIFEST.setup_cmd: build the framework from files on disk only (offline).
set -e
cd "$(dirname "$0")"
export PANDORA_REPO="${PANDORA_REPO:-/repo}"
export PYTHONPATH="$PANDORA_REPO" PYTHONHASHSEED=0
mkdir -p build .cache/numba evidence replays coq/Gen
# 1. regenerate every Gen/*.v from the current /repo
for t in translator/gen_*.py; do
  /venv/bin/python -W ignore "$t" 2>&1 | grep -v "WARNING conda" || true
done
# 2. full .vo build (no -vos), extraction included
for d in build/x*; do :; done
( cd coq && for x in Extract/X*.v; do n=$(basename "$x" .v | tr 'A-Z' 'a-z'); mkdir -p "../build/$n"; done
  timeout 3000 ./build.sh 2>&1 | grep -v "WARNING conda" | tail -5 )
# 3. extracted drivers
/venv/bin/python -W ignore - <<'PY'
import os, sys
sys.path.insert(0, os.getcwd())
from harness import core
for d in sorted(os.listdir(core.BUILD)):
    if d.startswith("x") and os.path.isdir(os.path.join(core.BUILD, d)):
        print("driver", d, core.build_driver(d))
PY
# 4. capture the Print Assumptions output of every Props file once (kept beside the build, keyed by the .vo hash;
#    a check recompiles its Props file only when that .vo changed)
/venv/bin/python -W ignore - <<'PY'
import glob, os, sys
from concurrent.futures import ThreadPoolExecutor
sys.path.insert(0, os.getcwd())
from harness import core
props = sorted(os.path.basename(f)[:-2] for f in glob.glob(os.path.join(core.COQ, "Props", "C[0-9][0-9].v")))
with ThreadPoolExecutor(8) as ex:
    for pid, (ok, th, ax, _) in zip(props, ex.map(core.props_assumptions, props)):
        print("assumptions", pid, ok, len(th), "theorems", sum(1 for v in ax.values() if v == "closed"), "closed")
PY
echo "setup done"
