#!/bin/bash
# MANIFEST.setup_cmd: build the framework from files on disk only (offline).
set -e
cd "$(dirname "$0")"
export PYTHONPATH=/repo PYTHONHASHSEED=0
mkdir -p build .cache/numba evidence replays coq/Gen
# 1. regenerate every Gen/*.v from the current /repo
for t in translator/gen_*.py; do
  /venv/bin/python -W ignore "$t" 2>&1 | grep -v "WARNING conda" || true
done
# 2. full .vo build (no -vos), extraction included
for d in build/x*; do :; done
( cd coq && for x in Extract/X*.v; do n=$(basename "$x" .v | tr 'X' 'x'); mkdir -p "../build/$n"; done
  timeout 3000 ./build.sh 2>&1 | grep -v "WARNING conda" | tail -5 )
# 3. extracted drivers
/venv/bin/python -W ignore - <<'PY'
import os, sys
sys.path.insert(0, os.getcwd())
from harness import core
for d in sorted(os.listdir(core.BUILD)):
    if d.startswith("x") and os.path.isdir(os.path.join(core.BUILD, d)):
        print("driver", d, core.build_driver(d))
PY
echo "setup done"
